// C16 - sorting, order statistics and rank correlation match their definitions.
// Engine E1 (bounded-exhaustive enumeration).  Every function here is comparison based, so its behaviour at
// a given length depends only on the weak order of the input: all weak orders (n <= 6) / all permutations
// (n <= 8) exhaust the behaviours at those lengths.  Oracles: brute-force sort / window median, O(n^2)
// long-double definitions of Pearson's r, Spearman's rho and Kendall's tau.
#include "vf.hpp"

using namespace vf;
using dsplib::arr_int;
using dsplib::arr_real;
using dsplib::Correlation;
using dsplib::Direction;

static arr_real mk(const std::vector<double>& v) {
    arr_real a((int)v.size());
    for (size_t i = 0; i < v.size(); ++i) a[(int)i] = v[i];
    return a;
}

static std::string digits(const std::vector<int>& s) {
    std::string o;
    for (int v : s) o += (char)(v < 10 ? '0' + v : 'a' + (v - 10));
    return o;
}

static double median_ref(std::vector<double> w) {
    std::sort(w.begin(), w.end());
    const size_t n = w.size();
    // even n: the exact mean of the two middle elements, computed in long double and rounded to double (it is representable
    // whenever the two elements are; for subnormal elements the halving of a single element is NOT exact, the halving of the sum is)
    return (n % 2 == 1) ? w[n / 2] : (double)(((ld)w[n / 2] + (ld)w[n / 2 - 1]) / 2);
}

// ---------------------------------------------------------------------------------------------- sort / issorted / median
static void check_sort_family(Ctx& ctx, const std::vector<double>& v) {
    const int n = (int)v.size();
    const arr_real x = mk(v);
    bool distinct2 = false;
    for (int i = 1; i < n; ++i) distinct2 |= (v[(size_t)i] != v[0]);
    if (distinct2) ctx.nontrivial();
    for (int d = 0; d < 2; ++d) {
        const Direction dir = d == 0 ? Direction::Ascend : Direction::Descend;
        const char* dn = d == 0 ? "ascend" : "descend";
        auto res = dsplib::sort(x, dir);
        const arr_real& s = res.first;
        const arr_int& idx = res.second;
        if (s.size() != n || idx.size() != n) {
            ctx.fail("sort", fmt("sizes %d,%d (%s)", s.size(), idx.size(), dn), fmt("%d,%d", n, n), P().kv("dir", dn));
            continue;
        }
        std::vector<char> seen((size_t)n, 0);
        bool perm = true, gather = true, ordered = true;
        for (int i = 0; i < n; ++i) {
            const int k = idx[i];
            if (k < 0 || k >= n || seen[(size_t)k]) {
                perm = false;
                break;
            }
            seen[(size_t)k] = 1;
            if (!biteq(s[i], v[(size_t)k])) gather = false;
        }
        for (int i = 1; i < n; ++i) ordered &= (d == 0 ? s[i - 1] <= s[i] : s[i - 1] >= s[i]);
        if (!perm) ctx.fail("sort", "index vector is not a permutation (" + std::string(dn) + "): " + show(idx), "permutation of 0..n-1", P().kv("dir", dn).kv("what", "perm"));
        else if (!gather) ctx.fail("sort", "sorted[i] != x[idx[i]] (" + std::string(dn) + "): sorted=" + show(s) + " idx=" + show(idx), "sorted[i] = x[idx[i]]", P().kv("dir", dn).kv("what", "gather"));
        if (!ordered) ctx.fail("sort", "output not ordered (" + std::string(dn) + "): " + show(s), d == 0 ? "non-decreasing" : "non-increasing", P().kv("dir", dn).kv("what", "order"));
        // issorted on the input and on the library's own output
        bool ref_sorted = true;
        for (int i = 1; i < n; ++i) ref_sorted &= (d == 0 ? v[(size_t)i - 1] <= v[(size_t)i] : v[(size_t)i - 1] >= v[(size_t)i]);
        const bool got_sorted = dsplib::issorted(x, dir);
        if (got_sorted != ref_sorted) ctx.fail("issorted", fmt("issorted(x,%s)=%d", dn, (int)got_sorted), fmt("%d", (int)ref_sorted), P().kv("dir", dn));
        ctx.note(std::string("sort ") + dn + (ref_sorted ? " fast path (already sorted)" : " index sort"));
        if (perm && gather && ordered && !dsplib::issorted(s, dir))
            ctx.fail("issorted", std::string("issorted(sort(x)) false (") + dn + ")", "true", P().kv("dir", dn).kv("what", "of-sorted"));
    }
    if (n >= 1) {
        const double m = dsplib::median(x), r = median_ref(v);
        if (!(m == r)) ctx.fail("median", fmt("median=%.17g", m), fmt("%.17g", r));
        ctx.note(n % 2 ? "median odd n" : "median even n");
    }
}

// value letter for rank r: negative, zero and positive values, exactly representable, halves exact
static double rank_val(int r) { return (r - 2) * 0.75; }

// Monotone value maps.  A comparison-based implementation behaves identically under every strictly monotone map of
// the values; an implementation that looks at magnitudes or differences (absolute tolerances, float casts ...) does
// not, so every weak order / stream / permutation is also enumerated through maps that produce denormal-scale values,
// values far below eps, adjacent doubles (below 0.5 and above 1, the latter decreasing) and huge values.
// Maps 6..10 change the UNIT of the data: plain * 2^k (exact), k in {-1000, -540, -300, +300, +1000}: order statistics and
// rank correlations do not depend on the unit, products / squares / casts of the values do.
// Maps 11..13: SUBNORMAL values r*2^-1074 (small integer multiples of the smallest subnormal, odd multiples and repeats included),
// r*2^-1060, and HUGE values r*2^1020 (up to DBL_MAX/2 for the ranks used; the sum of the two middle elements stays representable).
static const int NMAP = 14;
static const int MAP_HUGE = 13;
static const char* MAPN[NMAP] = {"plain", "r*1e-18", "1e-300*(r+1)", "0.25+r*2^-54", "-(1+r*eps)", "r*1e300/8",
                                 "plain*2^-1000", "plain*2^-540", "plain*2^-300", "plain*2^300", "plain*2^1000",
                                 "r*2^-1074", "r*2^-1060", "r*2^1020"};
static const int MAPK[NMAP] = {0, 0, 0, 0, 0, 0, -1000, -540, -300, 300, 1000, -1074, -1060, 1020};
static double vmap(int m, int r, double plain) {
    switch (m) {
    case 0: return plain;
    case 1: return r * 1e-18;
    case 2: return 1e-300 * (r + 1);
    case 3: return 0.25 + r * 0x1p-54;
    case 4: return -(1.0 + r * EPS);
    case 5: return r * (1e300 / 8);
    case 6: case 7: case 8: case 9: case 10: return std::ldexp(plain, MAPK[m]);
    default: return std::ldexp((double)r, MAPK[m]);
    }
}

static void run_sort(Ctx& ctx, bool T) {
    // every weak order of n <= 6 (thorough 8) elements = every sequence over {0..n-1} whose value set is {0..k-1}
    for (int n = 1; n <= (T ? 8 : 6); ++n) {
        std::vector<int> s((size_t)n, 0);
        while (true) {
            unsigned mask = 0;
            for (int v : s) mask |= 1u << v;
            if ((mask & (mask + 1)) == 0) {   // initial segment of values used
                for (int m = 0; m < NMAP; ++m)
                    if (ctx.take("sort.weakorder", P().kv("n", n).kv("seq", digits(s)).kv("map", MAPN[m]))) {
                        std::vector<double> v;
                        for (int r : s) v.push_back(vmap(m, r, rank_val(r)));
                        check_sort_family(ctx, v);
                    }
            }
            int p = n - 1;
            while (p >= 0 && s[(size_t)p] == n - 1) s[(size_t)p--] = 0;
            if (p < 0) break;
            ++s[(size_t)p];
        }
    }
    // every permutation for n <= 8 (thorough 10); both directions, so every already-sorted input is also sorted the other way
    for (int n = 2; n <= (T ? 10 : 8); ++n) {
        std::vector<int> p((size_t)n);
        for (int i = 0; i < n; ++i) p[(size_t)i] = i;
        do {
            for (int m = 0; m < (n >= 10 ? 6 : NMAP); ++m)   // the deepest level (n = 10) without the five unit maps (cost)
                if (ctx.take("sort.perm", P().kv("n", n).kv("perm", digits(p)).kv("map", MAPN[m]))) {
                    std::vector<double> v;
                    for (int r : p) v.push_back(vmap(m, r, rank_val(r)));
                    check_sort_family(ctx, v);
                }
        } while (std::next_permutation(p.begin(), p.end()));
    }
    // structured long arrays
    const char* letters[] = {"sorted", "reversed", "constant", "two-valued-alt", "two-valued-blocks", "lcg8", "lcg-distinct", "sorted-with-ties", "almost-sorted"};
    for (int n : {1, 2, 9, 10, 1000, 2000}) {
        for (int l = 0; l < 9; ++l) {
          for (int m = 0; m < ((l == 3 || l == 5) ? NMAP : 1); ++m) {
            if (!ctx.take("sort.long", P().kv("n", n).kv("letter", letters[l]).kv("map", MAPN[m]))) continue;
            std::vector<double> v((size_t)n);
            for (int i = 0; i < n; ++i) {
                double t = 0;
                switch (l) {
                case 0: t = i - 3; break;
                case 1: t = (n - i) * 0.5; break;
                case 2: t = -1.25; break;
                case 3: t = (i % 2) ? 1 : -1; break;
                case 4: t = (i < n / 2) ? 3 : -3; break;
                case 5: t = std::floor(lcg_val(1601, (uint64_t)i) * 4); break;
                case 6: t = lcg_val(1602, (uint64_t)i); break;
                case 7: t = i / 3; break;
                default: t = (i == n / 2) ? -7 : i; break;
                }
                if (l == 3) t = vmap(m, (i % 2), t);
                if (l == 5) t = vmap(m, (int)t + 4, t);
                v[(size_t)i] = t;
            }
            check_sort_family(ctx, v);
          }
        }
    }
    // nearly sorted inputs (both directions are sorted for each): an ordered run of length L - ascending / descending, strict /
    // with repeats - followed (or preceded) by T unordered values that belong before / inside / after the run; two ordered runs
    {
        const int Ls[6] = {31, 32, 33, 40, 100, 1000};
        const char* KN[4] = {"asc", "desc", "asc-repeats", "desc-repeats"};
        const char* PL[3] = {"below", "inside", "above"};
        auto runval = [](int kind, int i) {   // i-th value of an ordered run
            const double v = (kind >= 2) ? (double)(i / 3) : (double)i;
            return (kind & 1) ? -v : v;
        };
        for (int li = 0; li < 6; ++li) {
            const int L = Ls[li];
            const int Ts[5] = {1, 2, 5, 20, L - 1};
            for (int kind = 0; kind < 4; ++kind)
                for (int ti = 0; ti < 5; ++ti)
                    for (int pl = 0; pl < 3; ++pl)
                        for (int where = 0; where < 2; ++where) {   // 0: run first, unordered tail; 1: unordered head, run last
                            const int Tn = Ts[ti];
                            if (!ctx.take("sort.nearly", P().kv("run", KN[kind]).kv("L", L).kv("T", Tn).kv("values", PL[pl]).kv("order", where ? "head+run" : "run+tail"))) continue;
                            const double lo = std::min(runval(kind, 0), runval(kind, L - 1)), hi = std::max(runval(kind, 0), runval(kind, L - 1));
                            std::vector<double> run, extra;
                            for (int i = 0; i < L; ++i) run.push_back(runval(kind, i));
                            for (int i = 0; i < Tn; ++i) {
                                const double u = lcg_val(1630 + (uint64_t)kind, (uint64_t)(i + 131 * L));   // (-1, 1), unordered
                                extra.push_back(pl == 0 ? lo - 1 - 10 * (u + 1) : (pl == 2 ? hi + 1 + 10 * (u + 1) : lo + (hi - lo) * (u + 1) / 2));
                            }
                            std::vector<double> v = where ? extra : run;
                            v.insert(v.end(), where ? run.begin() : extra.begin(), where ? run.end() : extra.end());
                            check_sort_family(ctx, v);
                        }
        }
        // two concatenated ordered runs
        for (int L1 : {32, 40, 100})
            for (int L2 : {1, 31, 40, 100})
                for (int k1 = 0; k1 < 4; ++k1)
                    for (int k2 = 0; k2 < 4; ++k2) {
                        if (!ctx.take("sort.nearly", P().kv("run", KN[k1]).kv("L", L1).kv("run2", KN[k2]).kv("L2", L2))) continue;
                        std::vector<double> v;
                        for (int i = 0; i < L1; ++i) v.push_back(runval(k1, i));
                        for (int i = 0; i < L2; ++i) v.push_back(runval(k2, i) + ((k2 & 1) ? L2 / 2 : -L2 / 2) + 0.5);   // overlapping value ranges
                        check_sort_family(ctx, v);
                    }
    }
    // median of two / four elements whose SUM exceeds DBL_MAX (the true median (a+b)/2 is representable): observed and counted,
    // not judged (the mean of the two middle elements is formed as (a+b)/2 in double)
    {
        const double big[4] = {1.7976931348623157e308, 0x1.8p1023, 0x1p1023, 0x1.4p1023};
        for (int i = 0; i < 4; ++i)
            for (int j = i; j < 4; ++j) {
                if (!ctx.take("median.near_dbl_max", P().kv("a", big[i]).kv("b", big[j]))) continue;
                const double exact = (double)(((ld)big[i] + (ld)big[j]) / 2);
                const double m2 = dsplib::median(mk({big[i], big[j]})), m4 = dsplib::median(mk({big[j], big[i], big[i], big[j]}));
                ctx.nontrivial();
                dsplib::MedianFilter mf(4, big[i]);   // window after two pushes: {a, a, b, b}
                const dsplib::arr_real yf = mf.process(mk({big[j], big[j]}));
                const double m5 = yf[1];
                ctx.note(m2 == exact && m4 == exact ? "median near DBL_MAX (a+b overflows): exact median returned" : "median near DBL_MAX (a+b overflows): other value");
                // the true median (a+b)/2 of two finite values is finite and lies between them; tolerance 2 ulp of the result
                auto ok = [&](double m) { return std::isfinite(m) && std::fabs(m - exact) <= 2 * (std::nextafter(std::fabs(exact), INFINITY) - std::fabs(exact)); };
                if (!ok(m2) || !ok(m4) || !ok(m5))
                    ctx.fail("median", fmt("median of {%.17g, %.17g} = %.17g, of four such values = %.17g, MedianFilter(4) on {a,a,b,b} = %.17g", big[i], big[j], m2, m4, m5),
                             fmt("%.17g (the mean of two finite values is finite even when their sum is not)", exact));
            }
    }
    // big arrays (beyond 65536 elements) with closed-form letters, both directions
    const char* bigl[] = {"reversed-ramp", "two-valued", "rotated-ramp", "ramp"};
    for (int n : {70000, 200000})
        for (int l = 0; l < 4; ++l) {
            if (!ctx.take("sort.big", P().kv("n", n).kv("letter", bigl[l]))) continue;
            std::vector<double> v((size_t)n);
            for (int i = 0; i < n; ++i) v[(size_t)i] = l == 0 ? (n - i) * 0.5 : (l == 1 ? (double)((i / 7) % 2) : (l == 2 ? (double)((i + n / 3) % n) : i - 100.0));
            check_sort_family(ctx, v);
        }
}

// ---------------------------------------------------------------------------------------------- MedianFilter / medfilt
// reference stream: window = the last `order` samples including the current one, history initialised with `init`
static std::vector<double> medstream_ref(int order, double init, const std::vector<double>& x) {
    std::vector<double> h((size_t)order, init), y;
    for (double s : x) {
        h.push_back(s);
        y.push_back(median_ref(std::vector<double>(h.end() - order, h.end())));
    }
    return y;
}

// run the real filter with a framing given as block sizes; false if some block had the wrong size
static bool medstream_run(int order, double init, const std::vector<double>& x, const std::vector<int>& blocks, std::vector<double>& y) {
    dsplib::MedianFilter f(order, init);
    size_t pos = 0;
    y.clear();
    for (int b : blocks) {
        std::vector<double> part(x.begin() + (long)pos, x.begin() + (long)pos + b);
        arr_real o = f.process(mk(part));
        if (o.size() != b) return false;
        for (int i = 0; i < b; ++i) y.push_back(o[i]);
        pos += (size_t)b;
    }
    return true;
}

static std::vector<std::vector<int>> framings3(int k) {
    std::vector<std::vector<int>> f;
    f.push_back({k});
    f.push_back(std::vector<int>((size_t)k, 1));
    if (k >= 2) f.push_back({k / 2, k - k / 2});
    else f.push_back({k});
    return f;
}

static void check_medstream(Ctx& ctx, int order, double init, const std::vector<double>& x, const std::vector<std::vector<int>>& frs) {
    const std::vector<double> ref = medstream_ref(order, init, x);
    for (size_t fi = 0; fi < frs.size(); ++fi) {
        std::vector<double> y;
        if (!medstream_run(order, init, x, frs[fi], y)) {
            ctx.fail("MedianFilter::process", "output block size differs from input block size", "same size", P().kv("framing", (int)fi));
            continue;
        }
        for (size_t i = 0; i < ref.size(); ++i) {
            if (!(y[i] == ref[i])) {
                ctx.fail("MedianFilter::process", fmt("y[%zu]=%.17g (framing %zu)", i, y[i], fi), fmt("%.17g", ref[i]), P().kv("framing", (int)fi).kv("i", (int)i));
                break;
            }
        }
    }
    ctx.note(order % 2 ? "MedianFilter odd order" : "MedianFilter even order");
}

static void run_medfilt(Ctx& ctx, bool T) {
    std::vector<int> orders;
    for (int o = 3; o <= 12; ++o) orders.push_back(o);
    if (T) {
        orders.push_back(16);
        orders.push_back(33);
        orders.push_back(64);
    }
    const double inits[] = {0, -1, 5};
    const int K = T ? 10 : 6;
    // every sequence over {0,1,2}^k: all tie patterns (also ties with the initial history 0)
    for (int order : orders)
        for (double init : inits)
            for (int k = 1; k <= K; ++k) {
                std::vector<int> s((size_t)k, 0);
                const auto frs = framings3(k);
                while (true) {
                    for (int m = 0; m < (k >= 10 ? 6 : NMAP); ++m)   // the deepest level (k = 10) without the five unit maps (cost)
                    if (ctx.take("medfilt.ternary", P().kv("order", order).kv("init", (int)init).kv("seq", digits(s)).kv("map", MAPN[m]))) {
                        std::vector<double> x;
                        for (int r : s) x.push_back(vmap(m, r, r));
                        int nz = 0;
                        for (int v : s) nz += v != 0;
                        if (nz >= 2) ctx.nontrivial();
                        check_medstream(ctx, order, init, x, frs);
                    }
                    int p = k - 1;
                    while (p >= 0 && s[(size_t)p] == 2) s[(size_t)p--] = 0;
                    if (p < 0) break;
                    ++s[(size_t)p];
                }
            }
    // every sequence over {0,1,2,3}^k, k <= 4 (thorough 8)
    for (int order : orders)
        for (double init : inits)
            for (int k = 1; k <= (T ? 8 : 4); ++k) {
                std::vector<int> s((size_t)k, 0);
                const auto frs = framings3(k);
                while (true) {
                    for (int m = 0; m < (k >= 8 ? 6 : NMAP); ++m)   // the deepest level (k = 8) without the five unit maps (cost)
                        if (ctx.take("medfilt.quaternary", P().kv("order", order).kv("init", (int)init).kv("seq", digits(s)).kv("map", MAPN[m]))) {
                            std::vector<double> x;
                            int nz = 0;
                            for (int r : s) {
                                x.push_back(vmap(m, r, r));
                                nz += r != 0;
                            }
                            if (nz >= 2) ctx.nontrivial();
                            check_medstream(ctx, order, init, x, frs);
                        }
                    int p = k - 1;
                    while (p >= 0 && s[(size_t)p] == 3) s[(size_t)p--] = 0;
                    if (p < 0) break;
                    ++s[(size_t)p];
                }
            }
    // every permutation of 1..7
    for (int order : orders)
        for (double init : inits) {
            std::vector<int> p = {1, 2, 3, 4, 5, 6, 7};
            const auto frs = framings3(7);
            do {
                for (int m = 0; m < NMAP; ++m)
                    if (ctx.take("medfilt.perm7", P().kv("order", order).kv("init", (int)init).kv("perm", digits(p)).kv("map", MAPN[m]))) {
                        ctx.nontrivial();
                        std::vector<double> x;
                        for (int r : p) x.push_back(vmap(m, r, r));
                        check_medstream(ctx, order, init, x, frs);
                    }
            } while (std::next_permutation(p.begin(), p.end()));
        }
    // long streams, LCG quantised to 8 levels, 4 framings; every order 3..64 in the thorough tier
    {
        std::vector<int> lo = orders;
        if (T) {
            lo.clear();
            for (int o = 3; o <= 64; ++o) lo.push_back(o);
        } else {
            lo.push_back(16);
            lo.push_back(33);
            lo.push_back(64);
        }
        const int N = T ? 10000 : 2000;
        for (int order : lo)
            for (double init : inits)
                for (int tag = 0; tag < 2; ++tag)
                  for (int m = 0; m < NMAP; ++m) {
                    if (!ctx.take("medfilt.long", P().kv("order", order).kv("init", (int)init).kv("tag", tag).kv("len", N).kv("map", MAPN[m]))) continue;
                    ctx.nontrivial();
                    std::vector<double> x((size_t)N);
                    for (int i = 0; i < N; ++i) {
                        const double t = std::floor(lcg_val(1610 + (uint64_t)tag, (uint64_t)i) * 4);   // -4..3
                        x[(size_t)i] = vmap(m, (int)t + 4, t);
                    }
                    std::vector<std::vector<int>> frs;
                    frs.push_back({N});
                    frs.push_back(std::vector<int>((size_t)N, 1));
                    for (int kind = 0; kind < 2; ++kind) {   // blocks of 7 / block sizes cycling 1..order+1 (includes empty-free straddles)
                        std::vector<int> b;
                        int left = N, c = 0;
                        while (left > 0) {
                            int sz = kind == 0 ? 7 : 1 + (c++ % (order + 1));
                            sz = std::min(sz, left);
                            b.push_back(sz);
                            left -= sz;
                        }
                        frs.push_back(b);
                    }
                    check_medstream(ctx, order, init, x, frs);
                }
    }
    // medfilt(x, n): centred window (x[j-n/2 .. j+n-1-n/2], zeros outside), n in 3..9, |x| in 1..12
    {
        const int KX = T ? 8 : 6, NX = T ? 12 : 9;
        auto one = [&](int n, const std::vector<double>& x) {
            const int L = (int)x.size();
            arr_real xa = mk(x);
            arr_real y = dsplib::medfilt(xa, n);
            if (y.size() != L) {
                ctx.fail("medfilt", fmt("size %d", y.size()), fmt("%d", L));
                return;
            }
            for (int i = 0; i < L; ++i)
                if (!biteq(xa[i], x[(size_t)i])) {
                    ctx.fail("medfilt", "input array modified", "unchanged input");
                    break;
                }
            const int n1 = n / 2;
            for (int j = 0; j < L; ++j) {
                std::vector<double> w;
                for (int t = j - n1; t < j - n1 + n; ++t) w.push_back((t >= 0 && t < L) ? x[(size_t)t] : 0.0);
                const double r = median_ref(w);
                if (!(y[j] == r)) {
                    ctx.fail("medfilt", fmt("y[%d]=%.17g", j, y[j]), fmt("%.17g", r), P().kv("j", j));
                    break;
                }
            }
            ctx.note(n % 2 ? "medfilt odd n" : "medfilt even n");
        };
        const double alpha[3] = {-1, 0, 2};
        for (int n = 3; n <= 12; ++n) {
            for (int L = 1; L <= (n <= NX ? KX : 0); ++L) {
                std::vector<int> s((size_t)L, 0);
                while (true) {
                    for (int m = 0; m < NMAP; ++m)
                    if (ctx.take("medfilt.func", P().kv("n", n).kv("len", L).kv("seq", digits(s)).kv("map", MAPN[m]))) {
                        std::vector<double> x;
                        int nz = 0;
                        for (int v : s) {
                            x.push_back(vmap(m, v, alpha[v]));
                            nz += v != 1;
                        }
                        if (nz >= 2) ctx.nontrivial();
                        one(n, x);
                    }
                    int p = L - 1;
                    while (p >= 0 && s[(size_t)p] == 2) s[(size_t)p--] = 0;
                    if (p < 0) break;
                    ++s[(size_t)p];
                }
            }
            for (int L = 1; L <= 24; ++L)   // every (n, length) pair of 3..12 x 1..24 (includes lengths below n/2)
                for (int l = 0; l < 7; ++l)
                  for (int m = 0; m < NMAP; ++m) {
                    if (m == MAP_HUGE) continue;   // ranks up to 48 here: r*2^1020 would overflow
                    if (!ctx.take("medfilt.func.letters", P().kv("n", n).kv("len", L).kv("letter", l).kv("map", MAPN[m]))) continue;
                    std::vector<double> x((size_t)L);
                    for (int i = 0; i < L; ++i) {
                        switch (l) {
                        case 0: x[(size_t)i] = i + 1; break;
                        case 1: x[(size_t)i] = -(i + 1); break;
                        case 2: x[(size_t)i] = (i % 2) ? 3 : -3; break;
                        case 3: x[(size_t)i] = L - i; break;
                        default: x[(size_t)i] = std::floor(lcg_val(1620 + (uint64_t)l, (uint64_t)i) * 4); break;
                        }
                        // all letters take integer values in [-24, 24]: rank = value + 24
                        x[(size_t)i] = vmap(m, (int)x[(size_t)i] + 24, x[(size_t)i]);
                    }
                    if (L >= 2) ctx.nontrivial();
                    one(n, x);
                }
        }
        // big records (beyond 65536 samples), closed-form letters
        auto bigletter = [](int l, int N) {
            std::vector<double> x((size_t)N);
            for (int i = 0; i < N; ++i) x[(size_t)i] = l == 0 ? (double)(N - i) : (l == 1 ? (double)((i / 7) % 2) : (double)((i + N / 3) % N));
            return x;
        };
        const char* bigl[] = {"reversed-ramp", "two-valued", "rotated-ramp"};
        for (int N : {70000, 200000})
            for (int l = 0; l < 3; ++l) {
                for (int n : {3, 8}) {
                    if (!ctx.take("medfilt.big", P().kv("what", "medfilt").kv("n", n).kv("len", N).kv("letter", bigl[l]))) continue;
                    ctx.nontrivial();
                    one(n, bigletter(l, N));
                }
                for (int order : {5, 16, 33}) {
                    if (!ctx.take("medfilt.big", P().kv("what", "MedianFilter").kv("n", order).kv("len", N).kv("letter", bigl[l]))) continue;
                    ctx.nontrivial();
                    std::vector<int> blocks;
                    for (int left = N; left > 0; left -= 65537) blocks.push_back(std::min(left, 65537));
                    check_medstream(ctx, order, 0.0, bigletter(l, N), {{N}, blocks});
                }
            }
    }
}

// ---------------------------------------------------------------------------------------------- corr
static ld pearson_ref(const std::vector<double>& x, const std::vector<double>& y) {
    const size_t n = x.size();
    ld mx = 0, my = 0;
    for (size_t i = 0; i < n; ++i) {
        mx += x[i];
        my += y[i];
    }
    mx /= n;
    my /= n;
    ld sxy = 0, sxx = 0, syy = 0;
    for (size_t i = 0; i < n; ++i) {
        sxy += (x[i] - mx) * (y[i] - my);
        sxx += (x[i] - mx) * (x[i] - mx);
        syy += (y[i] - my) * (y[i] - my);
    }
    return sxy / sqrtl(sxx * syy);
}
static std::vector<double> ranks_ref(const std::vector<double>& x) {   // O(n^2), tie-free data
    std::vector<double> r(x.size());
    for (size_t i = 0; i < x.size(); ++i) {
        int c = 0;
        for (size_t j = 0; j < x.size(); ++j) c += x[j] < x[i];
        r[i] = c;
    }
    return r;
}
static ld kendall_ref(const std::vector<double>& x, const std::vector<double>& y) {
    const size_t n = x.size();
    long long s = 0;
    for (size_t i = 0; i + 1 < n; ++i)
        for (size_t k = i + 1; k < n; ++k) {
            const int a = (x[i] < x[k]) - (x[i] > x[k]), b = (y[i] < y[k]) - (y[i] > y[k]);
            s += a * b;
        }
    return (ld)s / (ld)(n * (n - 1) / 2);
}
// condition number of the moment formula n*Sxy - Sx*Sy used for r (>= 1)
static double pearson_kappa(const std::vector<double>& x, const std::vector<double>& y) {
    const size_t n = x.size();
    ld sx = 0, sy = 0, qx = 0, qy = 0;
    for (size_t i = 0; i < n; ++i) {
        sx += x[i];
        sy += y[i];
        qx += (ld)x[i] * x[i];
        qy += (ld)y[i] * y[i];
    }
    const ld vx = n * qx - sx * sx, vy = n * qy - sy * sy;
    return (double)(n * sqrtl(qx * qy) / sqrtl(vx * vy));
}

// monotone value letters for rank k (0-based): linear (inexact decimals), cubic with sign change, exponential
static double letter_val(int letter, int k) {
    switch (letter) {
    case 0: return 0.1 * k - 0.25;
    case 1: return (k - 2.0) * (k - 2.0) * (k - 2.0) * 0.5;
    default: return std::pow(1.5, k);
    }
}
static const char* LETTER_NAME[3] = {"linear", "cubic", "exp"};

struct CorrKind {
    const char* check;
    Correlation type;
    int fx, fy;   // value letters (rank correlation: linear for x, cubic for y - must not matter)
};

// one (x, y) pair; returns through `first_*` the first failure of each class within the block
struct CorrBlock {
    bool have_known = false, have_other = false;
    std::string k_obs, k_exp, o_obs, o_exp, o_what;
    P k_det, o_det;
};

static void corr_pair(Ctx& ctx, const CorrKind& ck, const std::vector<int>& px, const std::vector<int>& py, CorrBlock& blk) {
    const size_t n = px.size();
    std::vector<double> x(n), y(n);
    for (size_t i = 0; i < n; ++i) {
        x[i] = letter_val(ck.fx, px[i]);
        y[i] = letter_val(ck.fy, py[i]);
    }
    const arr_real ax = mk(x), ay = mk(y);
    const double got = dsplib::corr(ax, ay, ck.type), swp = dsplib::corr(ay, ax, ck.type);
    ld ref = 0;
    double tol = 0;
    if (ck.type == Correlation::Pearson) {
        ref = pearson_ref(x, y);
        tol = 16 * EPS * (double)n * pearson_kappa(x, y);
    } else if (ck.type == Correlation::Spearman) {
        ref = pearson_ref(ranks_ref(x), ranks_ref(y));
        tol = 16 * EPS * (double)n * 4;   // ranks are small integers: the moment sums are exact, only sqrt and the quotient round
    } else {
        ref = kendall_ref(x, y);
        tol = 8 * EPS;   // integer counts, one division
    }
    const double err = std::fabs((double)((ld)got - ref));
    bool same = true, rev = true;
    for (size_t i = 0; i < n; ++i) {
        same &= px[i] == py[i];
        rev &= px[i] == (int)n - 1 - py[i];
    }
    if (same) ctx.note(std::string(ck.check) + " increasing relation (+1)");
    if (rev) ctx.note(std::string(ck.check) + " decreasing relation (-1)");
    auto other = [&](const char* what, const std::string& obs, const std::string& exp) {
        if (blk.have_other) return;
        blk.have_other = true;
        blk.o_what = what;
        blk.o_obs = obs;
        blk.o_exp = exp;
        blk.o_det = P().kv("what", what).kv("y", digits(py)).kv("ignores_x", 0);
    };
    if (err <= tol) ctx.worst(std::string(ck.check) + " |err|/tol (passing cases)", err / tol);
    if (!(err <= tol)) {
        // classification for the known finding F20: the value equals Kendall's tau of the second argument against the
        // identity, i.e. the first argument has no influence
        bool ignores = false;
        if (ck.type == Correlation::Kendall) {
            std::vector<double> id(n);
            for (size_t i = 0; i < n; ++i) id[i] = (double)i;
            ignores = std::fabs((double)((ld)got - kendall_ref(id, y))) <= tol;
        }
        if (ignores) {
            if (!blk.have_known) {
                blk.have_known = true;
                blk.k_obs = fmt("corr(x,y)=%.17g with y=%s", got, digits(py).c_str());
                blk.k_exp = fmt("%.17Lg", ref);
                blk.k_det = P().kv("what", "value").kv("y", digits(py)).kv("ignores_x", 1);
            }
        } else {
            other("value", fmt("corr(x,y)=%.17g with y=%s", got, digits(py).c_str()), fmt("%.17Lg +- %.3g", ref, tol));
        }
    }
    // symmetry, range: only meaningful statements when the value itself is right are still checked independently
    if (!(std::fabs(got - swp) <= 1e-12)) {
        bool ignores = false;
        if (ck.type == Correlation::Kendall) {
            std::vector<double> id(n);
            for (size_t i = 0; i < n; ++i) id[i] = (double)i;
            ignores = std::fabs((double)((ld)got - kendall_ref(id, y))) <= tol && std::fabs((double)((ld)swp - kendall_ref(id, x))) <= tol;
        }
        if (ignores) {
            if (!blk.have_known) {
                blk.have_known = true;
                blk.k_obs = fmt("corr(x,y)=%.17g corr(y,x)=%.17g with y=%s", got, swp, digits(py).c_str());
                blk.k_exp = "symmetric";
                blk.k_det = P().kv("what", "symmetry").kv("y", digits(py)).kv("ignores_x", 1);
            }
        } else {
            other("symmetry", fmt("corr(x,y)=%.17g corr(y,x)=%.17g with y=%s", got, swp, digits(py).c_str()), "|difference| <= 1e-12");
        }
    }
    // range "to rounding": the same condition-aware slack as for the value (the moment formula of r rounds by n*eps*kappa)
    if (!(std::fabs(got) <= 1 + std::max(4 * EPS, tol))) other("range", fmt("corr=%.17g with y=%s", got, digits(py).c_str()), "in [-1,1] (to rounding)");
    if (std::isfinite(got)) ctx.worst(std::string(ck.check) + " max |corr| - 1", std::fabs(got) - 1);
}

static void corr_block_report(Ctx& ctx, const CorrBlock& blk) {
    if (blk.have_known) ctx.fail("corr", blk.k_obs, blk.k_exp, blk.k_det);
    if (blk.have_other) ctx.fail("corr", blk.o_obs, blk.o_exp, blk.o_det);
}

static void run_corr(Ctx& ctx, bool T) {
    std::vector<CorrKind> kinds;
    for (int fx = 0; fx < 3; ++fx)
        for (int fy = 0; fy < 3; ++fy) kinds.push_back({"corr.pearson", Correlation::Pearson, fx, fy});
    kinds.push_back({"corr.spearman", Correlation::Spearman, 0, 1});
    kinds.push_back({"corr.spearman", Correlation::Spearman, 2, 0});
    kinds.push_back({"corr.kendall", Correlation::Kendall, 0, 1});
    kinds.push_back({"corr.kendall", Correlation::Kendall, 2, 0});
    const int NMAX = T ? 6 : 5;
    // all pairs of permutations of length n
    for (int n = 2; n <= NMAX; ++n) {
        std::vector<int> px((size_t)n);
        for (int i = 0; i < n; ++i) px[(size_t)i] = i;
        do {
            for (const CorrKind& ck : kinds) {
                if (!ctx.take(ck.check, P().kv("n", n).kv("x", digits(px)).kv("fx", LETTER_NAME[ck.fx]).kv("fy", LETTER_NAME[ck.fy]))) continue;
                if (n >= 3) ctx.nontrivial();
                CorrBlock blk;
                std::vector<int> py((size_t)n);
                for (int i = 0; i < n; ++i) py[(size_t)i] = i;
                long long pairs = 0;
                do {
                    corr_pair(ctx, ck, px, py, blk);
                    ++pairs;
                } while (std::next_permutation(py.begin(), py.end()));
                ctx.note(std::string(ck.check) + " pairs evaluated (each in both argument orders)", pairs);
                corr_block_report(ctx, blk);
            }
        } while (std::next_permutation(px.begin(), px.end()));
    }
    // identity x all 5040 permutations of length 7 (blocks of 120 permutations: fixed first two elements)
    {
        const int n = 7;
        std::vector<int> id((size_t)n);
        for (int i = 0; i < n; ++i) id[(size_t)i] = i;
        for (int a = 0; a < n; ++a)
            for (int b = 0; b < n; ++b) {
                if (a == b) continue;
                for (const CorrKind& ck : kinds) {
                    for (int side = 0; side < 2; ++side) {   // identity as first / as second argument
                        if (!ctx.take(ck.check, P().kv("n", n).kv("x", side == 0 ? "identity" : "perm").kv("head", fmt("%d%d", a, b)).kv("fx", LETTER_NAME[ck.fx]).kv("fy", LETTER_NAME[ck.fy])))
                            continue;
                        ctx.nontrivial();
                        CorrBlock blk;
                        std::vector<int> rest;
                        for (int v = 0; v < n; ++v)
                            if (v != a && v != b) rest.push_back(v);
                        long long pairs = 0;
                        do {
                            std::vector<int> p = {a, b};
                            p.insert(p.end(), rest.begin(), rest.end());
                            if (side == 0) corr_pair(ctx, ck, id, p, blk);
                            else corr_pair(ctx, ck, p, id, blk);
                            ++pairs;
                        } while (std::next_permutation(rest.begin(), rest.end()));
                        ctx.note(std::string(ck.check) + " pairs evaluated (each in both argument orders)", pairs);
                        corr_block_report(ctx, blk);
                    }
                }
            }
    }
}

// thorough tier: every pair of permutations of length 7 (25.4 M pairs per coefficient), own check ids so that the
// records of the known Kendall finding cannot crowd out anything in the n <= 6 checks
static void run_corr_n7(Ctx& ctx) {
    const std::vector<CorrKind> kinds = {{"corr.pearson.n7", Correlation::Pearson, 0, 2}, {"corr.spearman.n7", Correlation::Spearman, 0, 1}, {"corr.kendall.n7", Correlation::Kendall, 0, 1}};
    const int n = 7;
    std::vector<int> px((size_t)n);
    for (int i = 0; i < n; ++i) px[(size_t)i] = i;
    do {
        for (const CorrKind& ck : kinds) {
            if (!ctx.take(ck.check, P().kv("n", n).kv("x", digits(px)).kv("fx", LETTER_NAME[ck.fx]).kv("fy", LETTER_NAME[ck.fy]))) continue;
            ctx.nontrivial();
            CorrBlock blk;
            std::vector<int> py((size_t)n);
            for (int i = 0; i < n; ++i) py[(size_t)i] = i;
            long long pairs = 0;
            do {
                corr_pair(ctx, ck, px, py, blk);
                ++pairs;
            } while (std::next_permutation(py.begin(), py.end()));
            ctx.note(std::string(ck.check) + " pairs evaluated (each in both argument orders)", pairs);
            corr_block_report(ctx, blk);
        }
    } while (std::next_permutation(px.begin(), px.end()));
}

// ---------------------------------------------------------------------------------------------- corr on long samples
// number of inversions of a sequence (merge sort), O(n log n)
static long long inversions(std::vector<double>& a, std::vector<double>& tmp, size_t lo, size_t hi) {
    if (hi - lo < 2) return 0;
    const size_t mid = lo + (hi - lo) / 2;
    long long inv = inversions(a, tmp, lo, mid) + inversions(a, tmp, mid, hi);
    size_t i = lo, j = mid, k = lo;
    while (i < mid && j < hi) {
        if (a[j] < a[i]) {
            inv += (long long)(mid - i);
            tmp[k++] = a[j++];
        } else {
            tmp[k++] = a[i++];
        }
    }
    while (i < mid) tmp[k++] = a[i++];
    while (j < hi) tmp[k++] = a[j++];
    for (size_t t = lo; t < hi; ++t) a[t] = tmp[t];
    return inv;
}
// permutation of 0..n-1 from fixed LCG keys (ties between keys broken by index: a permutation by construction)
static std::vector<int> lcg_perm(uint64_t tag, int n) {
    std::vector<int> idx((size_t)n), rank((size_t)n);
    for (int i = 0; i < n; ++i) idx[(size_t)i] = i;
    std::stable_sort(idx.begin(), idx.end(), [&](int a, int b) { return lcg_val(tag, (uint64_t)a) < lcg_val(tag, (uint64_t)b); });
    for (int i = 0; i < n; ++i) rank[(size_t)idx[(size_t)i]] = i;
    return rank;
}
static std::vector<int> ranks_fast(const std::vector<double>& v) {   // tie-free data
    const int n = (int)v.size();
    std::vector<int> idx((size_t)n), rank((size_t)n);
    for (int i = 0; i < n; ++i) idx[(size_t)i] = i;
    std::sort(idx.begin(), idx.end(), [&](int a, int b) { return v[(size_t)a] < v[(size_t)b]; });
    for (int i = 0; i < n; ++i) rank[(size_t)idx[(size_t)i]] = i;
    return rank;
}

// Lengths around and far beyond the sizes at which 32-bit intermediate products (n*n, n*(n*n-1), pair counts) overflow.
// x is a fixed pseudo-random permutation mapped linearly (tie-free by construction); y is a strictly increasing /
// decreasing, linear / nonlinear function of x, or an independent permutation.
static void run_corr_large(Ctx& ctx, bool T) {
    std::vector<int> lens = {100, 1000, 1290, 1291, 1625, 2000, 2048, 5000, 20000, 70000, 200000};
    if (T) {
        lens.push_back(65537);
        lens.push_back(100000);
        lens.push_back(1000003);
    }
    const char* REL[6] = {"increasing-linear", "decreasing-linear", "increasing-cubic", "decreasing-exp", "permutation-pair-a", "permutation-pair-b"};
    const char* TYN[3] = {"pearson", "spearman", "kendall"};
    const Correlation TYS[3] = {Correlation::Pearson, Correlation::Spearman, Correlation::Kendall};
    for (int n : lens)
        for (int rel = 0; rel < 6; ++rel)
            for (int ty = 0; ty < 3; ++ty) {
                // Kendall's pair loop is O(n^2) (seconds per call beyond n = 50000): in this grid only up to n = 20000, the lengths
                // beyond 65536 (pair counts above 2^31) are covered by corr.kendall.big with a small number of calls
                if (ty == 2 && n > 20000) continue;
                if (!ctx.take("corr.large", P().kv("n", n).kv("relation", REL[rel]).kv("type", TYN[ty]))) continue;
                ctx.nontrivial();
                const std::vector<int> px = lcg_perm(1650 + (uint64_t)rel, n);
                std::vector<double> x((size_t)n), y((size_t)n);
                std::vector<int> py;
                if (rel >= 4) py = lcg_perm(1660 + (uint64_t)rel, n);
                for (int i = 0; i < n; ++i) {
                    // spacing 0.001 up to n = 200000; beyond that the range is kept at 200 so that exp(-x) does not underflow
                    const double xv = (n <= 200000 ? 0.001 * px[(size_t)i] : px[(size_t)i] * (200.0 / n)) - 3.7;
                    x[(size_t)i] = xv;
                    switch (rel) {
                    case 0: y[(size_t)i] = 2 * xv + 1; break;
                    case 1: y[(size_t)i] = -0.5 * xv + 3; break;
                    case 2: y[(size_t)i] = xv * xv * xv; break;
                    case 3: y[(size_t)i] = std::exp(-xv); break;
                    default: y[(size_t)i] = 0.002 * py[(size_t)i] + 1; break;
                    }
                }
                // the construction must be tie-free and strictly monotone where claimed (guards the oracle, not the library)
                const std::vector<int> rx = ranks_fast(x), ry = ranks_fast(y);
                bool inc = true, dec = true;
                for (int i = 0; i < n; ++i) {
                    inc &= rx[(size_t)i] == ry[(size_t)i];
                    dec &= rx[(size_t)i] == n - 1 - ry[(size_t)i];
                }
                if ((rel == 0 || rel == 2) != inc || (rel == 1 || rel == 3) != dec) {
                    ctx.cap("corr.large: value letter not strictly monotone at this length (harness letter, case skipped)");
                    continue;
                }
                const arr_real ax = mk(x), ay = mk(y);
                const double got = dsplib::corr(ax, ay, TYS[ty]), swp = dsplib::corr(ay, ax, TYS[ty]);
                ld ref;
                double tol;
                if (ty == 0) {
                    ref = pearson_ref(x, y);
                    tol = 16 * EPS * (double)n * pearson_kappa(x, y);
                } else if (ty == 1) {
                    long long sd2 = 0;
                    for (int i = 0; i < n; ++i) {
                        const long long dd = rx[(size_t)i] - ry[(size_t)i];
                        sd2 += dd * dd;
                    }
                    ref = 1 - 6 * (ld)sd2 / ((ld)n * ((ld)n * n - 1));
                    tol = 16 * EPS * (double)n * 4.0;   // moment formula on ranks: kappa = n*sum r^2 / (n sum r^2 - (sum r)^2) -> 4
                } else {
                    std::vector<int> order((size_t)n);
                    for (int i = 0; i < n; ++i) order[(size_t)rx[(size_t)i]] = i;
                    std::vector<double> sq((size_t)n), tmp((size_t)n);
                    for (int i = 0; i < n; ++i) sq[(size_t)i] = y[(size_t)order[(size_t)i]];
                    const long long inv = inversions(sq, tmp, 0, (size_t)n), pairs = (long long)n * (n - 1) / 2;
                    ref = (ld)(pairs - 2 * inv) / (ld)pairs;
                    tol = 8 * EPS;
                    if (n <= 2000 && kendall_ref(x, y) != ref) {   // oracle self-check: O(n log n) inversion count against the O(n^2) definition
                        fprintf(stderr, "oracle self-check failed: Kendall inversion count at n=%d\n", n);
                        std::exit(4);
                    }
                }
                const double err = std::fabs((double)((ld)got - ref));
                if (err <= tol) ctx.worst(std::string("corr.large ") + TYN[ty] + " |err|/tol (passing cases)", err / tol);
                if (inc || dec) ctx.note(std::string("corr.large ") + TYN[ty] + (inc ? " strictly increasing relation" : " strictly decreasing relation"));
                if (!(err <= tol)) ctx.fail("corr", fmt("corr(x,y)=%.17g", got), fmt("%.17Lg +- %.3g", ref, tol), P().kv("what", "value"));
                if (!(std::fabs(got - swp) <= 1e-12)) ctx.fail("corr", fmt("corr(x,y)=%.17g corr(y,x)=%.17g", got, swp), "|difference| <= 1e-12", P().kv("what", "symmetry"));
                if (!(std::fabs(got) <= 1 + std::max(4 * EPS, tol))) ctx.fail("corr", fmt("corr=%.17g", got), "in [-1,1] (to rounding)", P().kv("what", "range"));
                if ((inc || dec) && ty != 0 && !(std::fabs(got - (inc ? 1.0 : -1.0)) <= tol))
                    ctx.fail("corr", fmt("corr=%.17g", got), inc ? "+1 (strictly increasing relation)" : "-1 (strictly decreasing relation)", P().kv("what", "unit"));
            }
}

// thorough tier, even length 8: identity, reversal and every 63rd permutation (641 x-permutations) against all 40320
// y-permutations, all three coefficients
static void run_corr_n8(Ctx& ctx) {
    const std::vector<CorrKind> kinds = {{"corr.pearson.n8", Correlation::Pearson, 0, 2}, {"corr.spearman.n8", Correlation::Spearman, 0, 1}, {"corr.kendall.n8", Correlation::Kendall, 0, 1}};
    const int n = 8;
    std::vector<int> px((size_t)n);
    for (int i = 0; i < n; ++i) px[(size_t)i] = i;
    long long ord = 0;
    do {
        const bool sel = (ord % 63 == 0) || ord == 40319;
        ++ord;
        if (!sel) continue;
        for (const CorrKind& ck : kinds) {
            if (!ctx.take(ck.check, P().kv("n", n).kv("x", digits(px)).kv("fx", LETTER_NAME[ck.fx]).kv("fy", LETTER_NAME[ck.fy]))) continue;
            ctx.nontrivial();
            CorrBlock blk;
            std::vector<int> py((size_t)n);
            for (int i = 0; i < n; ++i) py[(size_t)i] = i;
            long long pairs = 0;
            do {
                corr_pair(ctx, ck, px, py, blk);
                ++pairs;
            } while (std::next_permutation(py.begin(), py.end()));
            ctx.note(std::string(ck.check) + " pairs evaluated (each in both argument orders)", pairs);
            corr_block_report(ctx, blk);
        }
    } while (std::next_permutation(px.begin(), px.end()));
}

// Kendall's tau beyond 65536 elements: the number of pairs n(n-1)/2 exceeds 2^31.  The library's pair loop is O(n^2)
// (a few seconds per call), so only a handful of calls, one case per shard.  Reference: merge-sort inversion count in
// 64-bit integers (cross-checked against the O(n^2) definition for n <= 2000 in corr.large).
static void run_kendall_big(Ctx& ctx, bool T) {
    struct Case {
        int n;
        int letter;   // 0: x[i] = i, y[i] = (7919*i) mod n (a permutation: 7919 is prime and does not divide n); 1: strictly decreasing
        bool both;    // also the swapped call (symmetry)
    };
    std::vector<Case> cases = {{65537, 0, true}, {65537, 1, true}, {70000, 0, false}, {70000, 1, false}};
    if (T) {
        cases.push_back({70000, 0, true});
        cases.push_back({100000, 0, true});
        cases.push_back({100000, 1, false});
        cases.push_back({200000, 0, false});
    }
    const char* LN[2] = {"x=i,y=7919*i mod n", "strictly decreasing"};
    for (const Case& c : cases) {
        if (!ctx.take("corr.kendall.big", P().kv("n", c.n).kv("letter", LN[c.letter]).kv("both_orders", c.both))) continue;
        ctx.nontrivial();
        const int n = c.n;
        std::vector<double> x((size_t)n), y((size_t)n);
        for (int i = 0; i < n; ++i) {
            x[(size_t)i] = i;
            y[(size_t)i] = c.letter == 0 ? (double)((7919LL * i) % n) : -0.5 * i + 3;
        }
        std::vector<double> sq = y, tmp((size_t)n);   // x is already increasing: inversions of y
        const long long inv = inversions(sq, tmp, 0, (size_t)n), pairs = (long long)n * (n - 1) / 2;
        const ld ref = (ld)(pairs - 2 * inv) / (ld)pairs;
        const arr_real ax = mk(x), ay = mk(y);
        const double got = dsplib::corr(ax, ay, Correlation::Kendall);
        const double err = std::fabs((double)((ld)got - ref));
        ctx.worst("corr.kendall.big |err| (limit 8 eps)", std::isfinite(err) ? err : 1e300);
        if (!(err <= 8 * EPS)) ctx.fail("corr", fmt("corr(x,y,Kendall)=%.17g (n=%d, %lld pairs)", got, n, pairs), fmt("%.17Lg", ref), P().kv("what", "value"));
        if (!(std::fabs(got) <= 1 + 4 * EPS)) ctx.fail("corr", fmt("corr=%.17g", got), "in [-1,1]", P().kv("what", "range"));
        if (c.both) {
            const double swp = dsplib::corr(ay, ax, Correlation::Kendall);
            if (!(std::fabs(got - swp) <= 1e-12)) ctx.fail("corr", fmt("corr(x,y)=%.17g corr(y,x)=%.17g (n=%d)", got, swp, n), "|difference| <= 1e-12", P().kv("what", "symmetry"));
        }
    }
}

// ---------------------------------------------------------------------------------------------- corr: independence of the unit
// Every pair of permutations (x, y) is evaluated with each of the 10 non-plain value maps applied to x, to y and to both.
// Spearman's rho and Kendall's tau depend only on the two orders: the value for the mapped data must equal the reference of
// the plain pair (sign flipped once per decreasing map), within the usual rounding tolerance (the library is also expected to
// return identical bits; that is counted, not judged).  Pearson's r is invariant under positive scaling, but its moment
// formula squares the data: it is judged wherever x^2, y^2, the sums of squares and the two variances EACH stay inside
// [1e-290, 1e290] (this includes the units 2^+-300 on both samples: the product of the variances may leave the range;
// it excludes the units 2^+-540, 2^+-1000 and the 1e+-300 scales, whose squares are not representable) and where the
// condition-aware tolerance is meaningful (< 1e-3); outside that range the outcome is only counted.
static void run_corr_units(Ctx& ctx, bool T) {
    if (!ctx.wants("corr.units")) return;
    const char* TYN[3] = {"pearson", "spearman", "kendall"};
    const Correlation TYS[3] = {Correlation::Pearson, Correlation::Spearman, Correlation::Kendall};
    for (int n = 2; n <= 7; ++n) {
        std::vector<int> px((size_t)n);
        for (int i = 0; i < n; ++i) px[(size_t)i] = i;
        long long ord = 0, total = 1;
        for (int i = 2; i <= n; ++i) total *= i;
        do {
            // quick: every x-permutation for n <= 5; for n = 6, 7 the identity, the reversal and every 90th / 720th permutation
            const long long o = ord++;
            if (!T && n >= 6 && !(o == 0 || o == total - 1 || o % (n == 6 ? 90 : 720) == 0)) continue;
            if (!ctx.take("corr.units", P().kv("n", n).kv("x", digits(px)))) continue;
            if (n >= 3) ctx.nontrivial();
            std::map<std::string, bool> reported;
            std::vector<int> py((size_t)n);
            for (int i = 0; i < n; ++i) py[(size_t)i] = i;
            long long calls = 0;
            do {
                // plain letters: x = r + 1, y = r + 0.5 (non-zero, tie-free)
                std::vector<double> x0(n), y0(n);
                for (int i = 0; i < n; ++i) {
                    x0[(size_t)i] = px[(size_t)i] + 1.0;
                    y0[(size_t)i] = py[(size_t)i] + 0.5;
                }
                const ld rho0 = pearson_ref(ranks_ref(x0), ranks_ref(y0)), tau0 = kendall_ref(x0, y0);
                for (int m = 1; m < NMAP; ++m)
                    for (int side = 0; side < 3; ++side) {   // 0: x mapped, 1: y mapped, 2: both
                        std::vector<double> x = x0, y = y0;
                        for (int i = 0; i < n; ++i) {
                            if (side != 1) x[(size_t)i] = vmap(m, px[(size_t)i], x0[(size_t)i]);
                            if (side != 0) y[(size_t)i] = vmap(m, py[(size_t)i], y0[(size_t)i]);
                        }
                        const arr_real ax = mk(x), ay = mk(y);
                        const int flips = (m == 4) ? (side == 2 ? 2 : 1) : 0;   // map 4 is decreasing
                        const double sgn = (flips == 1) ? -1.0 : 1.0;
                        for (int ty = 0; ty < 3; ++ty) {
                            const double got = dsplib::corr(ax, ay, TYS[ty]);
                            ++calls;
                            ld ref;
                            double tol;
                            bool judged = true;
                            if (ty == 0) {
                                ld sx = 0, sy = 0, qx = 0, qy = 0, mxx = 0, myy = 0;
                                for (int i = 0; i < n; ++i) {
                                    sx += x[(size_t)i];
                                    sy += y[(size_t)i];
                                    qx += (ld)x[(size_t)i] * x[(size_t)i];
                                    qy += (ld)y[(size_t)i] * y[(size_t)i];
                                    mxx = std::max(mxx, (ld)x[(size_t)i] * x[(size_t)i]);
                                    myy = std::max(myy, (ld)y[(size_t)i] * y[(size_t)i]);
                                }
                                const ld vx = n * qx - sx * sx, vy = n * qy - sy * sy;
                                auto inr = [](ld v) { return fabsl(v) >= 1e-290L && fabsl(v) <= 1e290L; };
                                // each square and each variance representable; the product of the two variances need not be
                                // (r = cov / (sqrt(vx) sqrt(vy)) is well defined whenever the two factors are)
                                judged = inr(mxx) && inr(myy) && inr(qx) && inr(qy) && inr(vx) && inr(vy);
                                ref = judged ? pearson_ref(x, y) : 0;
                                tol = judged ? 16 * EPS * n * pearson_kappa(x, y) : 0;
                                if (judged && !(tol < 1e-3)) judged = false;
                                ctx.note(judged ? "corr.units pearson judged" : (std::isfinite(got) ? "corr.units pearson outside the representable range of the moment formula: finite result (not judged)"
                                                                                                   : "corr.units pearson outside the representable range of the moment formula: non-finite result (not judged)"));
                            } else if (ty == 1) {
                                ref = sgn * rho0;
                                tol = 16 * EPS * n * 4;
                            } else {
                                ref = sgn * tau0;
                                tol = 8 * EPS;
                            }
                            if (!judged) continue;
                            const double err = std::isfinite(got) ? std::fabs((double)((ld)got - ref)) : INFINITY;
                            if (err <= tol) {
                                ctx.worst(std::string("corr.units ") + TYN[ty] + " |err|/tol (passing cases)", tol > 0 ? err / tol : 0.0);
                                continue;
                            }
                            const std::string key = std::string(TYN[ty]) + "/" + MAPN[m];
                            if (reported[key]) continue;
                            reported[key] = true;
                            ctx.fail("corr", fmt("corr(%s)=%.17g with y=%s, map %s on %s", TYN[ty], got, digits(py).c_str(), MAPN[m], side == 0 ? "x" : (side == 1 ? "y" : "x and y")),
                                     fmt("%.17Lg +- %.3g (independent of the unit)", ref, tol), P().kv("type", TYN[ty]).kv("map", MAPN[m]).kv("side", side).kv("y", digits(py)));
                        }
                    }
            } while (std::next_permutation(py.begin(), py.end()));
            ctx.note("corr.units corr calls", calls);
        } while (std::next_permutation(px.begin(), px.end()));
    }
}

int main(int argc, char** argv) {
    Ctx ctx;
    ctx.parse(argc, argv, "C16");
    const bool T = ctx.thorough();
    run_sort(ctx, T);
    run_medfilt(ctx, T);
    run_corr(ctx, T);
    run_corr_large(ctx, T);
    run_kendall_big(ctx, T);
    run_corr_units(ctx, T);
    if (T) run_corr_n7(ctx);
    if (T) run_corr_n8(ctx);
    return ctx.finish();
}
