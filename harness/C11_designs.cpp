// C11 - FIR and window designs meet their closed-form specifications.
// Engine E1 (bounded-exhaustive enumeration).  Every (order, type, cut-off, window kind) tuple of a stated grid is
// designed with the real fir1(); every (family, parameter, length, variant) tuple is generated with the real
// window functions.  Oracles are long-double closed forms (windows, I0 by a converged series) and a long-double
// evaluation of the magnitude response on a uniform grid (table-driven, exact phase reduction).
#include "vf.hpp"

using namespace vf;
using namespace dsplib;

// ------------------------------------------------------------------------------------------------ windows
static ld i0_ld(ld x) {   // sum_k ((x/2)^k / k!)^2, iterated to convergence (all terms positive)
    const ld q = x * x / 4;
    ld t = 1, s = 1;
    for (int k = 1; k < 4000; ++k) {
        t *= q / ((ld)k * (ld)k);
        s += t;
        if (t < s * 1e-24L) break;
    }
    return s;
}
static ld i0_trunc15(ld x) {   // the first 15 terms only: model of the known truncation defect (classification only)
    const ld q = x * x / 4;
    ld t = 1, s = 1;
    for (int k = 1; k < 15; ++k) {
        t *= q / ((ld)k * (ld)k);
        s += t;
    }
    return s;
}

enum { W_COS, W_HANN, W_HAMM, W_BLACK, W_BH, W_GAUSS, W_TUKEY, W_KAISER, W_NFAM };
struct Fam {
    const char* name;
    bool has_periodic;
    const char* pkey;              // name of the shape parameter (nullptr: none)
    std::vector<double> params;    // both tiers
    std::vector<double> extra;     // thorough tier only (edge values of the stated parameter ranges and a denser grid)
};
static const Fam FAMS[W_NFAM] = {
  {"cosine", true, nullptr, {0}, {}},
  {"hann", true, nullptr, {0}, {}},
  {"hamming", true, nullptr, {0}, {}},
  {"blackman", true, nullptr, {0}, {}},
  {"blackmanharris", true, nullptr, {0}, {}},
  {"gauss", true, "alpha", {0.5, 1, 2.5, 4, 6, 1e-6, 1e-4, 1e-2},   // incl. tiny but non-zero
   {0.75, 1.5, 2, 3, 3.5, 5, 5.5}},
  {"tukey", false, "r", {-0.5, 0, 0.1, 0.25, 0.5, 0.75, 0.99, 1, 1.5, 1e-6, 1e-3},
   {-1e-9, 1e-9, 0.01, 1.0 / 3, 0.6, 0.9, 0.999999, 1.000001, 1.25}},
  {"kaiser", false, "beta", {0, 0.5, 1, 2, 5, 8, 10, 14, 20, 30, 38, 40, 1e-6, 1e-5, 1e-4, 2.4e-4, 4e-4, 1e-3, 5e-3, 0.02, 0.04},
   {3, 6, 7.5, 12, 25, 45, 50, 60}},
};

// kaiser argument s_i = sqrt(1 - t^2), t = (2i - (n-1)) / (n-1), computed as sqrt((1-t)(1+t))
static ld kaiser_s(int n, int i) {
    const ld t = ((ld)(2 * (long long)i) - (ld)(n - 1)) / (ld)(n - 1);
    ld v = (1 - t) * (1 + t);
    if (v < 0) v = 0;
    return sqrtl(v);
}

// textbook closed form of the symmetric window of length n (n >= 2) at index i
static ld ref_win(int fam, int n, int i, double p) {
    const ld N1 = (ld)(n - 1);
    const ld x = (ld)i / N1;   // 0..1
    switch (fam) {
    case W_COS: return sinl(PI_L * ((ld)i + 0.5L) / (ld)n);   // scipy/torch "cosine" (documented in window.cpp)
    case W_HANN: return 0.5L - 0.5L * cosl(2 * PI_L * x);
    case W_HAMM: return 0.54L - 0.46L * cosl(2 * PI_L * x);
    case W_BLACK: return 0.42L - 0.5L * cosl(2 * PI_L * x) + 0.08L * cosl(4 * PI_L * x);
    case W_BH:
        return 0.35875L - 0.48829L * cosl(2 * PI_L * x) + 0.14128L * cosl(4 * PI_L * x) - 0.01168L * cosl(6 * PI_L * x);
    case W_GAUSS: {
        const ld t = ((ld)i - N1 / 2) / (N1 / 2);
        return expl(-0.5L * ((ld)p * t) * ((ld)p * t));
    }
    case W_TUKEY: {
        const ld r = (ld)p;
        if (r <= 0) return 1;
        if (r >= 1) return 0.5L - 0.5L * cosl(2 * PI_L * x);
        if (x < r / 2) return 0.5L * (1 + cosl(2 * PI_L / r * (x - r / 2)));
        if (x > 1 - r / 2) return 0.5L * (1 + cosl(2 * PI_L / r * (x - 1 + r / 2)));
        return 1;
    }
    case W_KAISER: return i0_ld((ld)p * kaiser_s(n, i)) / i0_ld((ld)p);
    }
    return 0;
}

static arr_real lib_win(int fam, int n, double p, bool sym) {
    switch (fam) {
    case W_COS: return window::cosine(n, sym);
    case W_HANN: return window::hann(n, sym);
    case W_HAMM: return window::hamming(n, sym);
    case W_BLACK: return window::blackman(n, sym);
    case W_BH: return window::blackmanharris(n, sym);
    case W_GAUSS: return window::gauss(n, p, sym);
    case W_TUKEY: return window::tukey(n, p);
    case W_KAISER: return window::kaiser(n, p);
    }
    return arr_real();
}

static bool win_trivial(int fam, double p) { return (fam == W_TUKEY && p <= 0) || (fam == W_KAISER && p == 0); }

static P win_params(int fam, int n, double p, int sym) {
    P q;
    q.kv("n", n);
    if (FAMS[fam].pkey) q.kv(FAMS[fam].pkey, p);
    q.kv("sym", sym);
    return q;
}

static void check_windows(Ctx& ctx, bool T) {
    std::vector<int> lens;
    for (int n = 3; n <= (T ? 2048 : 256); ++n) lens.push_back(n);
    if (T) {
        for (int n : {4096, 4097, 65536, 99999, 100000}) lens.push_back(n);   // 1000, 1001 are inside 3..2048
    } else {
        for (int n : {1000, 1001, 4096, 4097, 65536, 100000}) lens.push_back(n);   // the big sizes of the quick tier
    }
    const double TOL = 1e-12, RTOL = 4 * EPS, STOL = 2 * EPS;

    for (int n : lens) {
        for (int fam = 0; fam < W_NFAM; ++fam) {
            const Fam& F = FAMS[fam];
            const std::string nm = F.name;
            std::vector<double> plist = F.params;
            if (T) plist.insert(plist.end(), F.extra.begin(), F.extra.end());
            for (double p : plist) {
                const bool triv = win_trivial(fam, p);
                auto guarded = [&](const char* site, int len, bool sym, arr_real& w) -> bool {
                    try {
                        w = lib_win(fam, len, p, sym);
                    } catch (const std::exception& e) {
                        ctx.fail(site, std::string("threw: ") + e.what(), "a window", P().kv("aspect", "threw"));
                        return false;
                    }
                    if (w.size() != len) {
                        ctx.fail(site, fmt("size %d", w.size()), fmt("size %d", len), P().kv("aspect", "size"));
                        return false;
                    }
                    return true;
                };
                // ---- closed form (symmetric variant, and periodic variant against symmetric(n+1))
                for (int sym = 1; sym >= (F.has_periodic ? 0 : 1); --sym) {
                    if (!ctx.take((nm + ".closedform").c_str(), win_params(fam, n, p, sym))) continue;
                    arr_real w;
                    if (!guarded(F.name, n, sym != 0, w)) continue;
                    if (!triv) ctx.nontrivial();
                    ctx.note(nm + (sym ? " sym " : " periodic ") + (n % 2 ? "odd" : "even"));
                    const int nref = sym ? n : n + 1;
                    double worst = 0;
                    int wi = 0;
                    double refv = 0;
                    bool trunc15 = (fam == W_KAISER);
                    const ld den15 = fam == W_KAISER ? i0_trunc15((ld)p) : 1;
                    for (int i = 0; i < n; ++i) {
                        const ld r = ref_win(fam, nref, i, p);
                        const double e = (double)fabsl((ld)w[i] - r);
                        if (!(e <= worst)) {   // also catches NaN
                            worst = std::isnan(e) ? INFINITY : e;
                            wi = i;
                            refv = (double)r;
                        }
                        if (trunc15) {
                            const ld m = i0_trunc15((ld)p * kaiser_s(nref, i)) / den15;
                            if (!(fabsl((ld)w[i] - m) <= 1e-11L)) trunc15 = false;
                        }
                    }
                    std::string key = "closedform abs err " + nm;
                    if (fam == W_KAISER) key += (p >= 8 ? " beta>=8" : " beta<8");
                    ctx.worst(key, worst);
                    if (!(worst <= TOL)) {
                        P d;
                        d.kv("aspect", "value").kv("i", wi).kv("err", worst);
                        if (fam == W_KAISER) d.kv("trunc15", trunc15 ? 1 : 0);
                        ctx.fail(F.name, fmt("w[%d]=%.17g (|err| %.3g)", wi, w[wi], worst),
                                 fmt("%.17g within 1e-12 (closed form)", refv), d);
                    }
                }
                // ---- range [0,1]
                for (int sym = 1; sym >= (F.has_periodic ? 0 : 1); --sym) {
                    if (!ctx.take((nm + ".range").c_str(), win_params(fam, n, p, sym))) continue;
                    arr_real w;
                    if (!guarded(F.name, n, sym != 0, w)) continue;
                    if (!triv) ctx.nontrivial();
                    for (int i = 0; i < n; ++i) {
                        const double v = w[i];
                        if (std::isfinite(v)) ctx.worst("range excess / eps", std::max(-v, v - 1) / EPS);
                        if (!(v >= -RTOL && v <= 1 + RTOL)) {
                            ctx.fail(F.name, fmt("w[%d]=%.17g", i, v), "in [-4eps, 1+4eps]", P().kv("i", i));
                            break;
                        }
                    }
                }
                // ---- mirror symmetry of the symmetric variant
                if (ctx.take((nm + ".symmetry").c_str(), win_params(fam, n, p, 1))) {
                    arr_real w;
                    if (guarded(F.name, n, true, w)) {
                        if (!triv) ctx.nontrivial();
                        for (int i = 0; i < n / 2; ++i) {
                            const double d = std::fabs(w[i] - w[n - 1 - i]);
                            ctx.worst("symmetry |w[i]-w[n-1-i]| / eps", std::isnan(d) ? INFINITY : d / EPS);
                            if (!(d <= STOL)) {
                                ctx.fail(F.name, fmt("w[%d]=%.17g w[%d]=%.17g", i, w[i], n - 1 - i, w[n - 1 - i]),
                                         "equal within 2 eps", P().kv("i", i));
                                break;
                            }
                        }
                    }
                }
                // ---- periodic(n) == first n points of symmetric(n+1)
                if (F.has_periodic && ctx.take((nm + ".periodic").c_str(), win_params(fam, n, p, 0))) {
                    arr_real wp, ws;
                    if (guarded(F.name, n, false, wp) && guarded(F.name, n + 1, true, ws)) {
                        ctx.nontrivial();
                        for (int i = 0; i < n; ++i) {
                            const double d = std::fabs(wp[i] - ws[i]);
                            ctx.worst("periodic vs symmetric(n+1) / eps", std::isnan(d) ? INFINITY : d / EPS);
                            if (!(d <= STOL)) {
                                ctx.fail(F.name, fmt("periodic[%d]=%.17g", i, wp[i]),
                                         fmt("symmetric(n+1)[%d]=%.17g within 2 eps", i, ws[i]), P().kv("i", i));
                                break;
                            }
                        }
                    }
                }
            }
        }
    }
}

// ------------------------------------------------------------------------------------------------ fir1
enum { F_LOW, F_HIGH, F_BP, F_BS };
static const char* TNAME[4] = {"low", "high", "bandpass", "bandstop"};
// K_HANNP, K_RAMP, K_EXP are asymmetric custom windows of the right length: the statement requires a symmetric
// (linear-phase) response for custom windows too, so a design must not inherit the asymmetry of its window.
enum { K_DEFAULT, K_HANN, K_RECT, K_KAISER6, K_HANNP, K_RAMP, K_EXP, K_NKIND };
static const char* KNAME[K_NKIND] = {"default", "hann", "rect", "kaiser6", "hann_periodic", "ramp", "exp_onesided"};
static bool asym_kind(int kind) { return kind >= K_HANNP; }

static int explen(int type, int n) { return (n % 2 == 1 && (type == F_HIGH || type == F_BS)) ? n + 2 : n + 1; }

// custom windows come from the harness's own closed forms (independent of the library's window code)
static arr_real own_window(int kind, int len) {
    arr_real w(len);
    for (int i = 0; i < len; ++i) {
        if (kind == K_RECT || len < 2) w[i] = 1;
        else if (kind == K_HANN) w[i] = (double)ref_win(W_HANN, len, i, 0);
        else if (kind == K_HANNP) w[i] = (double)ref_win(W_HANN, len + 1, i, 0);          // first len points of symmetric(len+1)
        else if (kind == K_RAMP) w[i] = 0.1 + 0.9 * (double)i / (double)(len - 1);        // linear ramp 0.1 .. 1
        else if (kind == K_EXP) w[i] = std::exp(-4.0 * (double)(len - 1 - i) / (double)(len - 1));   // e^-4 .. 1, one-sided
        else w[i] = (double)ref_win(W_KAISER, len, i, 6.0);
    }
    return w;
}

static arr_real design(int type, int n, double w1, double w2, int kind, int wlen /* -1: right length */) {
    static const FilterType FT[4] = {FilterType::Low, FilterType::High, FilterType::Bandpass, FilterType::Bandstop};
    if (kind == K_DEFAULT) return type < 2 ? fir1(n, w1, FT[type]) : fir1(n, w1, w2, FT[type]);
    const arr_real win = own_window(kind, wlen < 0 ? explen(type, n) : wlen);
    return type < 2 ? fir1(n, w1, FT[type], win) : fir1(n, w1, w2, FT[type], win);
}

// table-driven magnitude response at f_g = g/G (Nyquist = 1), g = 0..G: H = sum_k h[k] exp(-j pi g k / G)
struct RespTab {
    int G = 0;
    std::vector<ld> c, s;
    void init(int g) {
        G = g;
        c.resize(2 * (size_t)g);
        s.resize(2 * (size_t)g);
        for (int m = 0; m < 2 * g; ++m) {
            c[m] = cosl(PI_L * (ld)m / (ld)g);
            s[m] = sinl(PI_L * (ld)m / (ld)g);
        }
    }
    ld mag(const arr_real& h, int g) const {
        ld re = 0, im = 0;
        long long idx = 0;
        const long long M = 2LL * G;
        for (int k = 0; k < h.size(); ++k) {
            re += (ld)h[k] * c[(size_t)idx];
            im -= (ld)h[k] * s[(size_t)idx];
            idx += g;
            if (idx >= M) idx -= M;
        }
        return sqrtl(re * re + im * im);
    }
};

struct Cut {
    double w1, w2;
};

static P fir_params(int type, int n, const Cut& c, int kind) {
    P q;
    q.kv("n", n).kv("type", TNAME[type]);
    if (type < 2) q.kv("wn", c.w1);
    else q.kv("wn1", c.w1).kv("wn2", c.w2);
    q.kv("win", KNAME[kind]);
    return q;
}

static void check_fir(Ctx& ctx, bool T) {
    std::vector<int> orders;
    for (int n = 2; n <= (T ? 512 : 128); ++n) orders.push_back(n);
    if (T) {
        for (int n : {600, 750, 1000, 1500, 2000, 3000, 4096, 5001}) orders.push_back(n);
    } else {
        for (int n : {500, 1000, 4096, 5001}) orders.push_back(n);   // 4096 / 5001: the big sizes of the quick tier
    }
    std::vector<Cut> single, pairs;
    // low/high cut-offs: 0.02..0.98 step 0.0025 (thorough; contains 0.25, 0.5, 0.75 exactly) / 0.02 (quick);
    // band edges on a 0.025 / 0.05 grid
    if (T) {
        for (int i = 8; i <= 392; ++i) single.push_back({i / 400.0, 0});
        // off-grid values and the ends of the open interval (0, 1)
        for (double w : {0.001, 0.005, 0.01, 0.99, 0.995, 0.999, 1.0 / 3, 2.0 / 3, 0.3183098861837907, 0.7071067811865476, 0.123456789})
            single.push_back({w, 0});
    } else {
        for (int i = 20; i <= 980; i += 20) single.push_back({i / 1000.0, 0});
    }
    const int PG = T ? 40 : 20;
    for (int i = 1; i < PG; ++i)
        for (int j = i + 1; j < PG; ++j) pairs.push_back({(double)i / PG, (double)j / PG});
    if (T) {   // very narrow bands (edges almost equal), bands reaching the ends of (0, 1), an off-grid pair
        const Cut ex[] = {{0.1, 0.101}, {0.25, 0.251}, {0.5, 0.501}, {0.749, 0.75}, {0.001, 0.999}, {0.001, 0.002},
                          {0.998, 0.999}, {1.0 / 3, 2.0 / 3}, {0.3183098861837907, 0.7071067811865476}};
        for (const Cut& c : ex) pairs.push_back(c);
    }
    // mask grids: quick 1025 points (4097 for the two big orders); thorough 4097 points (8193 above order 1024)
    RespTab tabS, tabB;
    tabS.init(T ? 4096 : 1024);
    tabB.init(T ? 8192 : 4096);
    static const char* FTN[5] = {"NonlinearPhase", "EvenSymm", "OddSym", "EvenAntiSym", "OddAntiSym"};

    for (int n : orders) {
        for (int type = 0; type < 4; ++type) {
            const std::string tn = TNAME[type];
            const std::string c_shape = "fir1." + tn + ".shape", c_gain = "fir1." + tn + ".gain",
                              c_mask = "fir1." + tn + ".mask", c_winlen = "fir1." + tn + ".winlen";
            const std::vector<Cut>& cuts = type < 2 ? single : pairs;
            const int L = explen(type, n);

            // ---- custom window of the wrong length is rejected, of the right length accepted
            {
                const Cut c0 = type < 2 ? Cut{0.3, 0} : Cut{0.3, 0.6};
                // candidate lengths: the empty window (passed explicitly), 1, 2, half, n..n+3 and twice the right length
                std::vector<int> wlens;
                for (int wlen : {0, 1, 2, L / 2, n, n + 1, n + 2, n + 3, 2 * L})
                    if (std::find(wlens.begin(), wlens.end(), wlen) == wlens.end()) wlens.push_back(wlen);
                for (int wlen : wlens) {
                    P q;
                    q.kv("n", n).kv("type", TNAME[type]).kv("wlen", wlen);
                    if (!ctx.take(c_winlen.c_str(), q)) continue;
                    ctx.nontrivial();
                    bool threw = false;
                    int got = -1;
                    try {
                        got = design(type, n, c0.w1, c0.w2, K_RECT, wlen).size();
                    } catch (const std::exception&) {
                        threw = true;
                    }
                    ctx.note(std::string("winlen ") + (wlen == L ? "right" : (wlen == 0 ? "empty" : "wrong")) + (threw ? " threw" : " returned"));
                    if (wlen == L) {
                        if (threw || got != L)
                            ctx.fail("fir1", threw ? "threw" : fmt("returned %d taps", got),
                                     fmt("a design of %d taps (window length %d is the right one)", L, L));
                    } else if (!threw) {
                        ctx.fail("fir1", fmt("returned %d taps", got), fmt("exception (right window length is %d)", L));
                    }
                }
            }

            for (const Cut& c : cuts) {
                for (int kind = 0; kind < K_NKIND; ++kind) {
                    arr_real h;
                    auto get = [&]() -> bool {   // design for the case just taken; exception / non-finite tap = failure
                        try {
                            h = design(type, n, c.w1, c.w2, kind, -1);
                        } catch (const std::exception& e) {
                            ctx.fail("fir1", std::string("threw: ") + e.what(), fmt("a design of %d taps", L),
                                     P().kv("aspect", "threw"));
                            return false;
                        }
                        for (int i = 0; i < h.size(); ++i)
                            if (!std::isfinite(h[i])) {
                                ctx.fail("fir1", fmt("h[%d] not finite", i), "finite taps", P().kv("aspect", "finite"));
                                return false;
                            }
                        return true;
                    };
                    // ---- length and linear phase (mirror symmetry)
                    if (ctx.take(c_shape.c_str(), fir_params(type, n, c, kind))) {
                        if (get()) {
                            ctx.nontrivial();
                            ctx.note("fir1 " + tn + (n % 2 ? " odd " : " even ") + KNAME[kind]);
                            const int ft = (int)firtype(h);
                            ctx.note(std::string("firtype=") + (ft >= 0 && ft <= 4 ? FTN[ft] : "?"));
                            if (h.size() != L) {
                                ctx.fail("fir1", fmt("%d taps", h.size()), fmt("%d taps", L), P().kv("aspect", "length"));
                            } else {
                                double mx = 0;
                                for (int i = 0; i < L; ++i) mx = std::max(mx, std::fabs(h[i]));
                                double worst = 0;
                                int wi = 0;
                                for (int i = 0; i < L / 2; ++i) {
                                    const double d = std::fabs(h[i] - h[L - 1 - i]);
                                    if (d > worst) {
                                        worst = d;
                                        wi = i;
                                    }
                                }
                                if (mx == 0) mx = 1;
                                if (asym_kind(kind))
                                    ctx.worst("fir1 asymmetry / (eps max|h|) asymmetric custom windows", worst / (EPS * mx));
                                else if (!(type == F_HIGH && n % 2 == 0))
                                    ctx.worst("fir1 asymmetry / (eps max|h|) (excl. even-order high-pass)", worst / (EPS * mx));
                                else
                                    ctx.worst("fir1 asymmetry / (eps max|h|) even-order high-pass", worst / (EPS * mx));
                                if (!(worst <= 4 * EPS * mx))
                                    ctx.fail("fir1", fmt("h[%d]=%.17g h[%d]=%.17g (firtype: %s)", wi, h[wi], L - 1 - wi, h[L - 1 - wi],
                                                         ft >= 0 && ft <= 4 ? FTN[ft] : "?"),
                                             "h[i] = h[N-1-i] within 4 eps max|h|",
                                             P().kv("aspect", "symmetry").kv("i", wi).kv("last", wi == 0 ? 1 : 0));
                                // firtype() must classify a response that is mirror-equal by its own criterion (|d| < 2 eps
                                // absolute; here demanded only when every |d| < eps) as the symmetric type of its length
                                // parity.  A response that is not mirror-equal is reported by the symmetry aspect above.
                                else if (worst < EPS) {
                                    const int want = (L % 2 == 1) ? 1 : 2;   // EvenSymm (odd length) / OddSym (even length)
                                    if (ft != want)
                                        ctx.fail("firtype", std::string("firtype = ") + (ft >= 0 && ft <= 4 ? FTN[ft] : "?"), FTN[want],
                                                 P().kv("aspect", "firtype"));
                                }
                            }
                        }
                    }
                    // ---- unit gain at DC (low-pass) / Nyquist (high-pass)
                    if (type < 2 && ctx.take(c_gain.c_str(), fir_params(type, n, c, kind))) {
                        if (get()) {
                            ctx.nontrivial();
                            ld s = 0, sa = 0;
                            for (int k = 0; k < h.size(); ++k) {
                                s += (type == F_HIGH && (k & 1)) ? -(ld)h[k] : (ld)h[k];
                                sa += fabsl((ld)h[k]);
                            }
                            const double dev = (double)fabsl(fabsl(s) - 1);
                            const double tol = 1e-12 + 8 * EPS * (double)sa;
                            ctx.worst("fir1 gain conditioning sum|h|", (double)sa);
                            if (asym_kind(kind)) ctx.worst("fir1 |gain-1| asymmetric custom windows", dev);
                            else if (!(type == F_HIGH && n % 2 == 0)) ctx.worst("fir1 |gain-1| (excl. even-order high-pass)", dev);
                            else ctx.worst("fir1 |gain-1| even-order high-pass", dev);
                            if (!(dev <= tol)) {
                                // classification aid: would the gain be 1 with the sign of the last tap flipped?
                                const ld last = (type == F_HIGH && ((h.size() - 1) & 1)) ? -(ld)h[h.size() - 1] : (ld)h[h.size() - 1];
                                const bool endtap = h.size() > 0 && (double)fabsl(fabsl(s - 2 * last) - 1) <= tol;
                                ctx.fail("fir1", fmt("|H(%s)| = %.15g", type == F_LOW ? "0" : "pi", (double)fabsl(s)),
                                         "1 within 1e-12", P().kv("aspect", "gain").kv("dev", dev).kv("endtap", endtap ? 1 : 0));
                            }
                        }
                    }
                    // ---- Hamming-design masks (default window only; only when every band is wider than 16/(n+1))
                    if (kind == K_DEFAULT) {
                        const double bw = 16.0 / (n + 1);
                        const bool wide = type < 2 ? (c.w1 > bw && 1 - c.w1 > bw) : (c.w1 > bw && c.w2 - c.w1 > bw && 1 - c.w2 > bw);
                        if (wide && ctx.take(c_mask.c_str(), fir_params(type, n, c, kind))) {
                                if (get()) {
                                ctx.nontrivial();
                                const RespTab& tab = n > 1024 ? tabB : tabS;
                                const double tw = 4.0 / (n + 1) * (1 + 1e-12);
                                double wp = 0, wsb = 0, fp = 0, fs = 0;
                                for (int g = 0; g <= tab.G; ++g) {
                                    const double f = (double)g / tab.G;
                                    if (std::fabs(f - c.w1) <= tw) continue;
                                    if (type >= 2 && std::fabs(f - c.w2) <= tw) continue;
                                    bool pass;
                                    if (type == F_LOW) pass = f < c.w1;
                                    else if (type == F_HIGH) pass = f > c.w1;
                                    else if (type == F_BP) pass = f > c.w1 && f < c.w2;
                                    else pass = f < c.w1 || f > c.w2;
                                    const double m = (double)tab.mag(h, g);
                                    if (pass) {
                                        if (std::fabs(m - 1) > wp) wp = std::fabs(m - 1), fp = f;
                                    } else {
                                        if (m > wsb) wsb = m, fs = f;
                                    }
                                }
                                ctx.note(fmt("mask grid=%d", tab.G));
                                ctx.worst("fir1 pass-band deviation " + tn, wp);
                                ctx.worst("fir1 stop-band level " + tn, wsb);
                                if (!(wp <= 0.02))
                                    ctx.fail("fir1", fmt("| |H(%.5f)| - 1 | = %.5f", fp, wp), "<= 0.02 in the pass-band",
                                             P().kv("aspect", "passband").kv("f", fp));
                                if (!(wsb <= 0.02))
                                    ctx.fail("fir1", fmt("|H(%.5f)| = %.5f", fs, wsb), "<= 0.02 in the stop-band",
                                             P().kv("aspect", "stopband").kv("f", fs));
                            }
                        }
                    }
                }
            }
        }
    }
}

int main(int argc, char** argv) {
    Ctx ctx;
    ctx.parse(argc, argv, "C11");
    const bool T = ctx.thorough();
    // oracle self-check: converged I0 series against known values
    if (fabsl(i0_ld(1) - 1.266065877752008335598244625214717L) > 1e-17L ||
        fabsl(i0_ld(10) / 2815.716628466254471035931082221L - 1) > 1e-17L) {
        fprintf(stderr, "oracle self-check failed (I0)\n");
        return 4;
    }
    check_fir(ctx, T);
    check_windows(ctx, T);
    return ctx.finish();
}
