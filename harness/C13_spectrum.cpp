// C13 - spectral estimates conserve power and label frequencies correctly.
// Engine E1 (bounded-exhaustive enumeration).  Every (nfft, window family, window length, overlap, signal length,
// input kind, scaling, overload form) tuple of a stated grid is run through the real welch()/mscohere().  Oracles:
//  * density scaling: sum(pxx) = nfft * mean_seg sum|seg*win|^2 / (win.win) with the harness's own segmentation
//    (time-domain, long double) - checks segment count, stride, window compensation and one-sided folding;
//  * power scaling: peak of a bin-centred tone = A^2 (complex) / A^2/2 (real);
//  * tone labelling: f[argmax pxx] is the entry nearest the tone frequency (mod 1 for complex input);
//  * f is an arithmetic progression of bin frequencies; sizes; non-negativity;
//  * coherence in [0,1], = 1 for scaled copies.
// The exact Welch estimate (long-double DFT of the harness's own segments) is used only to decide whether the
// statement applies to a tone case (clear peak at the nearest bin / no image leakage), never as a stronger demand.
#include "vf.hpp"

using namespace vf;
using namespace dsplib;

// ------------------------------------------------------------------------------------------------ own windows
static ld i0_ld(ld x) {
    const ld q = x * x / 4;
    ld t = 1, s = 1;
    for (int k = 1; k < 4000; ++k) {
        t *= q / ((ld)k * (ld)k);
        s += t;
        if (t < s * 1e-24L) break;
    }
    return s;
}
enum { WK_RECT, WK_HAMM, WK_HANN, WK_KAISER, WK_BLACK, WK_BH, WK_COS, WK_GAUSS, WK_TUKEY, WK_HANNP, WK_N };
static const char* WKN[WK_N] = {"rect", "hamming", "hann", "kaiser5", "blackman", "blackmanharris", "cosine", "gauss2.5", "tukey0.5", "hann_periodic"};

static ld own_win_at(int kind, int n, int i) {   // symmetric closed forms (denominator n-1); n >= 2
    const ld N1 = (ld)(n - 1), x = (ld)i / N1;
    switch (kind) {
    case WK_RECT: return 1;
    case WK_HAMM: return 0.54L - 0.46L * cosl(2 * PI_L * x);
    case WK_HANN: return 0.5L - 0.5L * cosl(2 * PI_L * x);
    case WK_KAISER: {
        const ld t = 2 * x - 1;
        ld v = (1 - t) * (1 + t);
        if (v < 0) v = 0;
        return i0_ld(5 * sqrtl(v)) / i0_ld(5);
    }
    case WK_BLACK: return 0.42L - 0.5L * cosl(2 * PI_L * x) + 0.08L * cosl(4 * PI_L * x);
    case WK_BH: return 0.35875L - 0.48829L * cosl(2 * PI_L * x) + 0.14128L * cosl(4 * PI_L * x) - 0.01168L * cosl(6 * PI_L * x);
    case WK_COS: return sinl(PI_L * ((ld)i + 0.5L) / (ld)n);
    case WK_GAUSS: {
        const ld t = 2 * x - 1;
        return expl(-0.5L * 2.5L * 2.5L * t * t);
    }
    case WK_TUKEY: {
        if (x < 0.25L) return 0.5L * (1 + cosl(4 * PI_L * (x - 0.25L)));
        if (x > 0.75L) return 0.5L * (1 + cosl(4 * PI_L * (x - 0.75L)));
        return 1;
    }
    }
    return 1;
}
static std::vector<double> own_window(int kind, int n) {
    std::vector<double> w((size_t)n);
    for (int i = 0; i < n; ++i) {
        ld v = (kind == WK_HANNP) ? own_win_at(WK_HANN, n + 1, i) : own_win_at(kind, n, i);
        if (v < 0) v = 0;   // blackman(0) = -1.4e-17
        w[(size_t)i] = (double)v;
    }
    return w;
}
// a window is used only if its largest weight is >= 1e-3 (hann(2) = [0,0] has no power to normalise by)
static bool usable(const std::vector<double>& w) {
    double m = 0;
    for (double v : w) m = std::max(m, v);
    return m >= 1e-3;
}
static arr_real to_arr(const std::vector<double>& v) {
    arr_real a((int)v.size());
    for (size_t i = 0; i < v.size(); ++i) a[(int)i] = v[i];
    return a;
}
static bool is_rect(const std::vector<double>& w) {
    for (double v : w)
        if (v != 1.0) return false;
    return true;
}

// ------------------------------------------------------------------------------------------------ signals
struct Sig {
    bool cplx = false;
    std::vector<double> re, im;
    int size() const { return (int)re.size(); }
    arr_real real_arr() const { return to_arr(re); }
    arr_cmplx cmplx_arr() const {
        arr_cmplx a(size());
        for (int i = 0; i < size(); ++i) a[i] = cmplx_t(re[(size_t)i], im[(size_t)i]);
        return a;
    }
};
static Sig dense(bool cplx, int N, uint64_t tag) {
    Sig s;
    s.cplx = cplx;
    s.re.resize((size_t)N);
    s.im.assign((size_t)N, 0.0);
    for (int i = 0; i < N; ++i) {
        s.re[(size_t)i] = lcg_val(tag, (uint64_t)i);
        if (cplx) s.im[(size_t)i] = lcg_val(tag + 7777, (uint64_t)i);
    }
    return s;
}
// tone of frequency q/(ppb nfft) cycles/sample (ppb grid points per bin), unit amplitude; phase reduced exactly
static Sig tone(bool cplx, int N, long long q, int nfft, ld phi0, int ppb) {
    Sig s;
    s.cplx = cplx;
    s.re.resize((size_t)N);
    s.im.assign((size_t)N, 0.0);
    const long long M = (long long)ppb * nfft;
    for (int i = 0; i < N; ++i) {
        long long r = ((q % M) * (long long)(i % M)) % M;
        if (r < 0) r += M;
        const ld ph = 2 * PI_L * (ld)r / (ld)M + phi0;
        s.re[(size_t)i] = (double)cosl(ph);
        if (cplx) s.im[(size_t)i] = (double)sinl(ph);
    }
    return s;
}
static Sig scaled(const Sig& u, double a) {
    Sig s = u;
    for (auto& v : s.re) v *= a;
    for (auto& v : s.im) v *= a;
    return s;
}

// ------------------------------------------------------------------------------------------------ references
static int nseg_of(int N, int winlen, int nov) { return (N - winlen) / (winlen - nov) + 1; }

// nfft * mean over segments of sum|seg*win|^2 / (win.win)   (own segmentation, time domain)
static ld ref_density_sum(const Sig& x, const std::vector<double>& w, int nov, int nfft) {
    const int wl = (int)w.size(), st = wl - nov, ns = nseg_of(x.size(), wl, nov);
    ld ww = 0;
    for (double v : w) ww += (ld)v * v;
    ld S = 0;
    for (int s = 0; s < ns; ++s)
        for (int n = 0; n < wl; ++n) {
            const size_t j = (size_t)(s * st + n);
            S += ((ld)x.re[j] * x.re[j] + (ld)x.im[j] * x.im[j]) * (ld)w[(size_t)n] * w[(size_t)n];
        }
    return (ld)nfft * S / (ld)ns / ww;
}

// exact Welch estimate, two-sided, FFT order (bin k <-> frequency k/nfft mod 1); kmax = number of bins wanted
static std::vector<ld> ref_welch(const Sig& x, const std::vector<double>& w, int nov, int nfft, bool power, int kmax) {
    const int wl = (int)w.size(), st = wl - nov, ns = nseg_of(x.size(), wl, nov);
    std::vector<cld> tw((size_t)nfft);
    for (int m = 0; m < nfft; ++m) tw[(size_t)m] = twid(m, nfft);
    ld ww = 0, sw = 0;
    for (double v : w) ww += (ld)v * v, sw += v;
    const ld norm = power ? sw * sw : ww;
    std::vector<ld> P((size_t)kmax, 0);
    std::vector<cld> seg((size_t)wl);
    for (int s = 0; s < ns; ++s) {
        for (int n = 0; n < wl; ++n) {
            const size_t j = (size_t)(s * st + n);
            seg[(size_t)n] = cld((ld)x.re[j] * w[(size_t)n], (ld)x.im[j] * w[(size_t)n]);
        }
        for (int k = 0; k < kmax; ++k) {
            cld acc = 0;
            int idx = 0;
            for (int n = 0; n < wl && n < nfft; ++n) {
                acc += seg[(size_t)n] * tw[(size_t)idx];
                idx += k;
                if (idx >= nfft) idx -= nfft;
            }
            P[(size_t)k] += std::norm(acc);
        }
    }
    for (auto& v : P) v /= norm * (ld)ns;
    return P;
}

// ------------------------------------------------------------------------------------------------ library calls
struct Res {
    bool threw = false;
    std::string what;
    std::vector<double> pxx, f;
};
// form 0: (x, win, nov, nfft, scale)   1: (x, winlen, nov, nfft, scale)   2: (x, win, scale)   3: (x, winlen, scale)
static Res call_welch(const Sig& x, const std::vector<double>& w, int nov, int nfft, bool power, int form) {
    Res r;
    const SpectrumType sc = power ? SpectrumType::Power : SpectrumType::Psd;
    const int wl = (int)w.size();
    try {
        if (x.cplx) {
            const arr_cmplx a = x.cmplx_arr();
            WelchResult o = form == 0   ? welch(a, to_arr(w), nov, nfft, sc)
                            : form == 1 ? welch(a, wl, nov, nfft, sc)
                            : form == 2 ? welch(a, to_arr(w), sc)
                                        : welch(a, wl, sc);
            r.pxx.assign(o.pxx.begin(), o.pxx.end());
            r.f.assign(o.f.begin(), o.f.end());
        } else {
            const arr_real a = x.real_arr();
            WelchResult o = form == 0   ? welch(a, to_arr(w), nov, nfft, sc)
                            : form == 1 ? welch(a, wl, nov, nfft, sc)
                            : form == 2 ? welch(a, to_arr(w), sc)
                                        : welch(a, wl, sc);
            r.pxx.assign(o.pxx.begin(), o.pxx.end());
            r.f.assign(o.f.begin(), o.f.end());
        }
    } catch (const std::exception& e) {
        r.threw = true;
        r.what = e.what();
    }
    return r;
}

static const char* site_of(bool cplx) { return cplx ? "welch_cmplx" : "welch_real"; }

// sizes, finiteness, non-negativity, frequency axis.  Returns false if the result cannot be indexed safely.
static bool check_shape(Ctx& ctx, const Res& r, bool cplx, int nfft) {
    const char* site = site_of(cplx);
    if (r.threw) {
        ctx.fail(site, "threw: " + r.what, "a WelchResult", P().kv("aspect", "threw"));
        return false;
    }
    const int want = cplx ? nfft : nfft / 2 + 1;
    if ((int)r.pxx.size() != want || (int)r.f.size() != want) {
        ctx.fail(site, fmt("pxx.size=%zu f.size=%zu", r.pxx.size(), r.f.size()), fmt("%d", want), P().kv("aspect", "size"));
        return false;
    }
    for (int i = 0; i < want; ++i) {
        const double v = r.pxx[(size_t)i];
        if (!(std::isfinite(v) && v >= 0)) {
            ctx.fail(site, fmt("pxx[%d]=%.17g", i, v), "finite and >= 0", P().kv("aspect", "nonneg").kv("i", i));
            return false;
        }
    }
    const double step = 1.0 / nfft;
    for (int i = 0; i + 1 < want; ++i) {
        if (!(std::fabs(r.f[(size_t)i + 1] - r.f[(size_t)i] - step) <= 4 * EPS)) {
            ctx.fail(site, fmt("f[%d]-f[%d]=%.17g", i + 1, i, r.f[(size_t)i + 1] - r.f[(size_t)i]), fmt("1/nfft=%.17g", step),
                     P().kv("aspect", "fstep").kv("i", i));
            return false;
        }
    }
    if (!cplx) {
        if (!(std::fabs(r.f[0]) <= 4 * EPS)) {
            ctx.fail(site, fmt("f[0]=%.17g", r.f[0]), "0 (one-sided spectrum starts at DC)", P().kv("aspect", "f0"));
            return false;
        }
    } else {
        const double m = r.f[0] * nfft;
        if (!(std::isfinite(m) && std::fabs(m - std::round(m)) <= 1e-9 && r.f[0] >= -0.5 - 4 * EPS && r.f[(size_t)want - 1] < 1.0)) {
            ctx.fail(site, fmt("f[0]=%.17g f[end]=%.17g", r.f[0], r.f[(size_t)want - 1]), "bin frequencies m/nfft inside [-0.5, 1)",
                     P().kv("aspect", "f0"));
            return false;
        }
    }
    return true;
}

struct Cfg {
    int nfft, wl, nov;
};
static std::vector<int> uniq(std::vector<int> v) {
    std::vector<int> o;
    for (int x : v)
        if (std::find(o.begin(), o.end(), x) == o.end()) o.push_back(x);
    return o;
}
// segment grids of the DESIGN section: every window length 2..nfft for nfft <= full_upto (every overlap for window lengths
// <= ov_upto), else a fixed set of window lengths x overlaps (larger set when deep)
static std::vector<Cfg> seg_grid(int nfft, int full_upto, int ov_upto = 32, bool deep = false) {
    std::vector<Cfg> g;
    std::vector<int> wls;
    if (nfft <= full_upto) {
        for (int w = 2; w <= nfft; ++w) wls.push_back(w);
    } else if (deep) {
        wls = uniq({std::max(2, nfft / 4), nfft / 3, nfft / 2, nfft / 2 + 1, 3 * (nfft / 4), nfft - 1, nfft});
    } else {
        wls = uniq({std::max(2, nfft / 4), nfft / 2, nfft - 1, nfft});
    }
    for (int wl : wls) {
        std::vector<int> novs;
        if (wl <= ov_upto && nfft <= full_upto) {
            for (int o = 0; o < wl; ++o) novs.push_back(o);
        } else if (deep) {
            novs = uniq({0, 1, wl / 4, wl / 2, 3 * (wl / 4), std::max(0, wl - 2), wl - 1});
        } else {
            novs = uniq({0, 1, wl / 2, wl - 1});
        }
        for (int o : novs) g.push_back({nfft, wl, o});
    }
    return g;
}

static P cfg_params(bool cplx, const Cfg& c, int wk) {
    return P().kv("input", cplx ? "complex" : "real").kv("nfft", c.nfft).kv("win", WKN[wk]).kv("winlen", c.wl).kv("nov", c.nov);
}

// ------------------------------------------------------------------------------------------------ checks
static void density_case(Ctx& ctx, const Sig& x, const std::vector<double>& w, int nov, int nfft, int form) {
    const Res r = call_welch(x, w, nov, nfft, false, form);
    if (!check_shape(ctx, r, x.cplx, nfft)) return;
    ld s = 0;
    for (double v : r.pxx) s += v;
    const ld e = ref_density_sum(x, w, nov, nfft);
    const double rel = (double)(fabsl(s - e) / e);
    ctx.worst("density sum rel err", std::isnan(rel) ? INFINITY : rel);
    if (!(rel <= 1e-10))
        ctx.fail(site_of(x.cplx), fmt("sum(pxx)=%.15g", (double)s),
                 fmt("%.15g = nfft*mean_seg sum|seg*win|^2/(win.win), %d segments", (double)e, nseg_of(x.size(), (int)w.size(), nov)),
                 P().kv("aspect", "sum").kv("ratio", (double)(s / e)));
    if (nseg_of(x.size(), (int)w.size(), nov) >= 2 || !is_rect(w)) ctx.nontrivial();
    ctx.note(fmt("%s nseg=%s %s", x.cplx ? "complex" : "real",
                 nseg_of(x.size(), (int)w.size(), nov) == 1 ? "1" : (nseg_of(x.size(), (int)w.size(), nov) <= 4 ? "2-4" : ">4"),
                 (int)w.size() == nfft ? "winlen=nfft" : "winlen<nfft"));
}

static void check_grid(Ctx& ctx, bool T) {
    const std::vector<int> nffts = T ? std::vector<int>{8, 16, 32, 64, 128, 256, 512, 1024, 2048, 4096} : std::vector<int>{8, 16, 32, 64, 256, 1024, 4096};
    const std::vector<int> js = T ? std::vector<int>{0, 1, 2, 5} : std::vector<int>{0, 1, 3};
    for (int nfft : nffts) {
        for (const Cfg& c : seg_grid(nfft, T ? 128 : 32, T ? 64 : 32, T)) {
            const int st = c.wl - c.nov;
            for (int wk = 0; wk < WK_N; ++wk) {
                if (nfft > 256 && !T && wk >= 4) continue;   // quick: 4 window families for the two largest transforms
                const std::vector<double> w = own_window(wk, c.wl);
                if (!usable(w)) continue;
                for (int cplx = 0; cplx < 2; ++cplx) {
                    for (int j : js) {
                        for (int rr = 0; rr < 2; ++rr) {
                            const int rem = rr == 0 ? 0 : st - 1;
                            if (rr == 1 && rem == 0) continue;
                            const int N = c.wl + j * st + rem;
                            // ---- density scaling: power conservation with own segmentation
                            if (ctx.take("welch.density_sum", cfg_params(cplx != 0, c, wk).kv("N", N))) {
                                const Sig x = dense(cplx != 0, N, 11 + (uint64_t)N);
                                density_case(ctx, x, w, c.nov, nfft, 0);
                            }
                            // ---- power scaling: shape only (sizes, non-negativity, frequency axis)
                            if (rr == 0 && ctx.take("welch.shape", cfg_params(cplx != 0, c, wk).kv("N", N).kv("scale", "power"))) {
                                const Sig x = dense(cplx != 0, N, 13 + (uint64_t)N);
                                const Res r = call_welch(x, w, c.nov, nfft, true, 0);
                                if (check_shape(ctx, r, cplx != 0, nfft) && (j > 0 || !is_rect(w))) ctx.nontrivial();
                            }
                        }
                    }
                }
            }
        }
    }
    // ---- long signals (thorough): N = 100000 and a stride-1 case
    if (T) {
        struct LC {
            int nfft, wl, nov, N;
        };
        std::vector<LC> lc;
        for (int nfft : {1024, 4096})
            for (int wl : {nfft / 2, nfft})
                for (int nov : {0, wl / 2, wl - wl / 8}) lc.push_back({nfft, wl, nov, 100000});
        lc.push_back({256, 255, 254, 20000});
        lc.push_back({64, 33, 32, 50000});
        for (const LC& l : lc)
            for (int wk : {WK_HAMM, WK_RECT, WK_BH})
                for (int cplx = 0; cplx < 2; ++cplx) {
                    const Cfg c{l.nfft, l.wl, l.nov};
                    if (!ctx.take("welch.density_sum", cfg_params(cplx != 0, c, wk).kv("N", l.N))) continue;
                    density_case(ctx, dense(cplx != 0, l.N, 17), own_window(wk, l.wl), l.nov, l.nfft, 0);
                }
    }
}

// overload forms with documented defaults: hamming window, noverlap = winlen/2, nfft = 2^nextpow2(winlen)
static void check_forms(Ctx& ctx, bool T) {
    std::vector<int> wls;
    for (int w = 2; w <= (T ? 300 : 66); ++w) wls.push_back(w);
    if (T) {
        for (int w : {500, 513, 1000, 1023, 1024, 1025, 2000, 3000, 4095, 4097}) wls.push_back(w);
    } else {
        for (int w : {100, 200, 255, 256, 257, 1000, 1024}) wls.push_back(w);
    }
    for (int wl : wls) {
        int p2 = 1;
        while (p2 < wl) p2 *= 2;
        for (int form = 1; form <= 3; ++form) {
            const std::vector<double> w = own_window(form == 2 ? WK_BLACK : WK_HAMM, wl);
            if (!usable(w)) continue;
            std::vector<Cfg> cs;
            if (form == 1) {
                for (int nfft : {p2, 2 * p2})
                    for (int nov : uniq({0, 1, wl / 2, wl - 1})) cs.push_back({nfft, wl, nov});
            } else {
                cs.push_back({p2, wl, wl / 2});
            }
            for (const Cfg& c : cs)
                for (int cplx = 0; cplx < 2; ++cplx)
                    for (int j : {0, 2}) {
                        const int st = c.wl - c.nov, N = c.wl + j * st + (st - 1);
                        P p = P().kv("input", cplx ? "complex" : "real").kv("form", form).kv("winlen", wl).kv("nov", c.nov).kv("nfft", c.nfft).kv("N", N);
                        if (ctx.take("welch.forms", p)) {
                            ctx.note(fmt("form %d", form));
                            density_case(ctx, dense(cplx != 0, N, 19 + (uint64_t)N), w, c.nov, c.nfft, form);
                        }
                    }
        }
    }
    // ---- nfft that is not a power of two: documented as unsupported.  The statement is silent, so either an exception
    //      or a result of the right shape is accepted (weaker reading).
    for (int nfft : {3, 5, 6, 7, 9, 12, 15, 24, 48, 100, 1000})
        for (int cplx = 0; cplx < 2; ++cplx) {
            if (!ctx.take("welch.nfft_not_pow2", P().kv("input", cplx ? "complex" : "real").kv("nfft", nfft))) continue;
            const int wl = std::max(2, nfft / 2);
            const Sig x = dense(cplx != 0, 3 * wl, 23);
            const Res r = call_welch(x, own_window(WK_HAMM, wl), wl / 2, nfft, false, 0);
            ctx.nontrivial();
            ctx.note(r.threw ? "nfft not pow2: rejected" : "nfft not pow2: returned");
            if (!r.threw) {
                const int want = cplx ? nfft : nfft / 2 + 1;
                bool ok = (int)r.pxx.size() == want && r.f.size() == r.pxx.size();
                for (double v : r.pxx) ok = ok && std::isfinite(v) && v >= 0;
                if (!ok) ctx.fail(site_of(cplx != 0), fmt("returned %zu values", r.pxx.size()), "exception, or a non-negative spectrum of the documented size");
            }
        }
}

// one tone of frequency q/(ppb nfft): labelling (density scaling) and, if bin-centred, the power-scaled peak.  A case is
// one (configuration, window, frequency); the three amplitude letters are run inside it (the failing amplitude is
// reported as detail "amp").
static void tone_case(Ctx& ctx, bool cplx, const Cfg& c, int wk, const std::vector<double>& w, long long q, int ppb, int N) {
    static const double amps[3] = {1e-3, 1, 1e3};
    const int nfft = c.nfft;
    const int nb = cplx ? nfft : nfft / 2 + 1;
    const ld f0 = (ld)q / (ld)((long long)ppb * nfft);
    const ld phi0 = 0.3L + 0.37L * (ld)(((q % 5) + 5) % 5);
    // distance of reference bin k (true frequency k/nfft mod 1) from the tone
    auto dref = [&](int k) -> ld {
        ld d = (ld)k / nfft - f0;
        d -= floorl(d + 0.5L);
        return fabsl(d);
    };
    // exact Welch estimate of the unit tone (one-sided for real input) and its maximum
    auto exact = [&](const Sig& u, bool power, ld& pm) -> std::vector<ld> {
        std::vector<ld> Pr = ref_welch(u, w, c.nov, nfft, power, nb);
        if (!cplx)
            for (int k = 1; k < nfft / 2; ++k) Pr[(size_t)k] *= 2;
        pm = 0;
        for (ld v : Pr) pm = std::max(pm, v);
        return Pr;
    };
    if (ctx.take("welch.tone_label", cfg_params(cplx, c, wk).kv("q", q).kv("ppb", ppb))) {
        const Sig u = tone(cplx, N, q, nfft, phi0, ppb);
        ld dmin = 1;
        for (int k = 0; k < nb; ++k) dmin = std::min(dmin, dref(k));
        const ld dtol = dmin + 1e-9L / nfft;
        // is the peak of the exact estimate clearly at the nearest bin(s)?
        ld pm;
        const std::vector<ld> Pr = exact(u, false, pm);
        bool decidable = pm > 0;
        for (int k = 0; k < nb && decidable; ++k)
            if (Pr[(size_t)k] >= pm * (1 - 1e-9L) && dref(k) > dtol) decidable = false;
        if (!decidable) {
            ctx.note(std::string("tone_label skipped: exact estimate has no clear peak at the nearest bin, ") + (cplx ? "complex" : "real"));
        } else {
            ctx.nontrivial();
            ctx.note(std::string("tone_label decided, ") + (cplx ? "complex" : "real") +
                     (q % ppb == 0 ? " bin-centred" : ((2 * q) % ppb == 0 ? " half-bin" : " off-centre")));
        }
        for (int ai = 0; ai < 3; ++ai) {
            const double A = amps[ai];
            const Res r = call_welch(scaled(u, A), w, c.nov, nfft, false, 0);
            if (!check_shape(ctx, r, cplx, nfft)) break;
            if (!decidable) continue;
            int im = 0;
            for (int i = 1; i < nb; ++i)
                if (r.pxx[(size_t)i] > r.pxx[(size_t)im]) im = i;
            ld d = (ld)r.f[(size_t)im] - f0;
            d -= floorl(d + 0.5L);
            d = fabsl(d);
            if (!(d <= dtol)) {
                const bool fftorder = dref(im) <= dtol;   // classification aid: the values are in FFT order
                ctx.fail(site_of(cplx), fmt("tone at %.6f: peak index %d labelled f=%.6f", (double)f0, im, r.f[(size_t)im]),
                         fmt("label within %.6f of the tone (nearest bin)", (double)dmin),
                         P().kv("aspect", "label").kv("amp", A).kv("imax", im).kv("fftorder", fftorder ? 1 : 0));
                break;
            }
        }
    }
    if (q % ppb == 0 && ctx.take("welch.power_peak", cfg_params(cplx, c, wk).kv("q", q).kv("ppb", ppb))) {
        const Sig u = tone(cplx, N, q, nfft, phi0, ppb);
        ld pm;
        exact(u, true, pm);
        const ld want1 = cplx ? 1.0L : 0.5L;   // mean-square value of the unit tone
        ctx.worst(std::string("image leakage of exact estimate (rel), ") + (cplx ? "complex" : "real"), (double)fabsl(pm / want1 - 1));
        const bool decidable = fabsl(pm / want1 - 1) <= 1e-12L;
        if (!decidable) {
            ctx.note(std::string("power_peak skipped: image leakage > 1e-12 in the exact estimate, ") + (cplx ? "complex" : "real"));
        } else {
            ctx.nontrivial();
            ctx.note(std::string("power_peak decided, ") + (cplx ? "complex " : "real ") + WKN[wk]);
        }
        for (int ai = 0; ai < 3; ++ai) {
            const double A = amps[ai];
            const Res r = call_welch(scaled(u, A), w, c.nov, nfft, true, 0);
            if (!check_shape(ctx, r, cplx, nfft)) break;
            if (!decidable) continue;
            double mx = 0;
            for (double v : r.pxx) mx = std::max(mx, v);
            const double want = (double)want1 * A * A;
            const double rel = std::fabs(mx / want - 1);
            ctx.worst("power peak rel err", rel);
            if (!(rel <= 1e-9)) {
                ctx.fail(site_of(cplx), fmt("max(pxx)=%.15g", mx), fmt("%.15g (mean square of the tone)", want),
                         P().kv("aspect", "peak").kv("amp", A).kv("ratio", mx / want));
                break;
            }
        }
    }
}

// tone sweep: ppb frequencies per bin (quick 4, thorough 8) over (0, 0.5) real / (-0.5, 0.5) complex
static void check_tones(Ctx& ctx, bool T) {
    const std::vector<int> nffts = T ? std::vector<int>{8, 16, 32, 64, 128, 256} : std::vector<int>{8, 16, 32, 64};
    const int ppb = T ? 8 : 4;
    for (int nfft : nffts) {
        for (const Cfg& c : seg_grid(nfft, 0)) {
            const int st = c.wl - c.nov;
            const int N = c.wl + 2 * st + (st - 1);
            for (int wk = 0; wk < WK_N; ++wk) {
                const std::vector<double> w = own_window(wk, c.wl);
                if (!usable(w)) continue;
                for (int cplx = 0; cplx < 2; ++cplx) {
                    const long long half = (long long)(ppb / 2) * nfft;
                    for (long long q = cplx ? -half + 1 : 1; q <= half - 1; ++q) tone_case(ctx, cplx != 0, c, wk, w, q, ppb, N);
                }
            }
        }
    }
    // nfft 512 (thorough): the full 8-per-bin sweep on a reduced configuration set (2 window lengths x 2 overlaps x 3 windows)
    if (T) {
        const int nfft = 512;
        for (int wl : {nfft / 2, nfft})
            for (int nov : {0, wl / 2}) {
                const Cfg c{nfft, wl, nov};
                const int st = wl - nov, N = wl + 2 * st + (st - 1);
                for (int wk : {WK_RECT, WK_HAMM, WK_HANNP}) {
                    const std::vector<double> w = own_window(wk, wl);
                    for (int cplx = 0; cplx < 2; ++cplx) {
                        const long long half = 4LL * nfft;
                        for (long long q = cplx ? -half + 1 : 1; q <= half - 1; ++q) tone_case(ctx, cplx != 0, c, wk, w, q, 8, N);
                    }
                }
            }
    }
    // large transforms (thorough): a sparse frequency set next to DC, next to +-0.5, bin-centred, quarter- and eighth-bin offsets
    if (T) {
        for (int nfft : {1024, 4096})
            for (int wl : {nfft / 2, nfft})
                for (int wk : {WK_HAMM, WK_HANNP}) {
                    const Cfg c{nfft, wl, wl / 2};
                    const std::vector<double> w = own_window(wk, wl);
                    const int N = wl + 2 * (wl / 2) + 7;
                    const long long H = 4LL * nfft;   // q of frequency 0.5 at 8 points per bin
                    for (int cplx = 0; cplx < 2; ++cplx)
                        for (long long q : {24LL, 8LL * 3 + 1, H / 4, H / 4 + 2, H / 2 - 8, H / 2 + 3, H - 40, H - 33, 8LL * (nfft / 3), 8LL * (nfft / 3) + 5}) {
                            tone_case(ctx, cplx != 0, c, wk, w, q, 8, N);
                            if (cplx) tone_case(ctx, true, c, wk, w, -q, 8, N);
                        }
                }
    }
}

// ------------------------------------------------------------------------------------------------ coherence
// second-signal letters.  Scaled copies (kind 0): first signal = sx * letter, second = sy * letter; the statement puts no
// restriction on the scale, so the scales span 1e-15 .. 1e15 (no overflow / underflow: powers stay within 1e-32 .. 1e32).
struct YL {
    const char* name;
    double sx, sy;
    int kind;    // 0 scaled copy, 1 filtered copy, 2 independent letter, 3 delayed copy, 4 copy + independent letter
    bool deep;   // thorough tier only
};
static const YL YS[] = {
  {"x*-3", 1, -3, 0, false},        {"x*1e-3", 1, 1e-3, 0, false},   {"x*1", 1, 1, 0, false},         {"x*1e3", 1, 1e3, 0, false},
  {"filtered", 1, 1, 1, false},     {"independent", 1, 1, 2, false}, {"x*1e-15", 1, 1e-15, 0, false}, {"x*-1e-13", 1, -1e-13, 0, false},
  {"x*1e-10", 1, 1e-10, 0, false},  {"x*1e10", 1, 1e10, 0, false},   {"x*1e13", 1, 1e13, 0, false},   {"x*-1e15", 1, -1e15, 0, false},
  {"1e-8x,1e8x", 1e-8, 1e8, 0, false},
  {"x*-1", 1, -1, 0, true},         {"3x,-7x", 3, -7, 0, true},      {"1e5x,1e-5x", 1e5, 1e-5, 0, true}, {"x*1e6", 1, 1e6, 0, true},
  {"x*-1e-6", 1, -1e-6, 0, true},   {"delayed3", 1, 1, 3, true},     {"x+0.5n", 1, 1, 4, true},
};
static const int NY = (int)(sizeof(YS) / sizeof(YS[0]));

// form 0: (x,y,win,nov,nfft); 1: (x,y,winlen,nov,nfft) [hamming]; 2: (x,y,win); 3: (x,y,winlen)
static void coh_case(Ctx& ctx, int nfft, const std::vector<double>& w, const char* wname, int nov, int form, const YL& yl, int N) {
    const int wl = (int)w.size();
    P p = P().kv("nfft", nfft).kv("win", wname).kv("winlen", wl).kv("nov", nov).kv("y", yl.name).kv("form", form);
    if (N > 0) p.kv("N", N);
    if (!ctx.take(yl.kind == 0 ? "mscohere.scaled_copy" : "mscohere.range", p)) return;
    const int st = wl - nov;
    if (N <= 0) N = wl + 3 * st + (st - 1);
    const Sig base = dense(false, N, 31);
    const Sig x = yl.sx == 1 ? base : scaled(base, yl.sx);
    Sig y = x;
    if (yl.kind == 0) {
        y = scaled(base, yl.sy);
    } else if (yl.kind == 1) {
        for (int i = 0; i < N; ++i)
            y.re[(size_t)i] = x.re[(size_t)i] + (i >= 1 ? 0.5 * x.re[(size_t)i - 1] : 0) - (i >= 2 ? 0.25 * x.re[(size_t)i - 2] : 0);
    } else if (yl.kind == 2) {
        y = dense(false, N, 37);
    } else if (yl.kind == 3) {
        for (int i = 0; i < N; ++i) y.re[(size_t)i] = i >= 3 ? x.re[(size_t)i - 3] : 0.25 * x.re[(size_t)i];
    } else {
        const Sig nz = dense(false, N, 41);
        for (int i = 0; i < N; ++i) y.re[(size_t)i] = x.re[(size_t)i] + 0.5 * nz.re[(size_t)i];
    }
    const bool farscale = yl.kind == 0 && std::fabs(std::log10(std::fabs(yl.sy / yl.sx))) > 6;
    ctx.nontrivial();
    ctx.note(fmt("mscohere form %d %s", form, yl.kind == 0 ? (farscale ? "scaled, ratio beyond 1e+-6" : "scaled") : yl.name));
    std::vector<double> coh;
    try {
        const arr_real ax = x.real_arr(), ay = y.real_arr();
        const arr_real o = form == 0   ? mscohere(ax, ay, to_arr(w), nov, nfft)
                           : form == 1 ? mscohere(ax, ay, wl, nov, nfft)
                           : form == 2 ? mscohere(ax, ay, to_arr(w))
                                       : mscohere(ax, ay, wl);
        coh.assign(o.begin(), o.end());
    } catch (const std::exception& e) {
        ctx.fail("mscohere", std::string("threw: ") + e.what(), "coherence", P().kv("aspect", "threw"));
        return;
    }
    if ((int)coh.size() != nfft / 2 + 1) {
        ctx.fail("mscohere", fmt("size %zu", coh.size()), fmt("%d", nfft / 2 + 1), P().kv("aspect", "size"));
        return;
    }
    for (int k = 0; k < (int)coh.size(); ++k) {
        const double v = coh[(size_t)k];
        if (!(v >= -1e-12 && v <= 1 + 1e-12)) {   // also NaN: the letters are dense, every bin has power
            ctx.fail("mscohere", fmt("coh[%d]=%.17g", k, v), "in [0,1]", P().kv("aspect", "range").kv("k", k));
            break;
        }
        ctx.worst("coherence excess over 1", v - 1);
        if (yl.kind == 0) {
            ctx.worst("scaled copy |coh-1|", std::fabs(v - 1));
            if (farscale) ctx.worst("scaled copy |coh-1|, scale ratio beyond 1e+-6", std::fabs(v - 1));
            if (!(std::fabs(v - 1) <= 1e-9)) {
                ctx.fail("mscohere", fmt("coh[%d]=%.17g for y = %s", k, v, yl.name), "1 within 1e-9", P().kv("aspect", "one").kv("k", k));
                break;
            }
        }
    }
}

static void check_coherence(Ctx& ctx, bool T) {
    const std::vector<int> nffts = T ? std::vector<int>{8, 16, 32, 64, 128, 256, 512, 1024, 2048, 4096} : std::vector<int>{8, 16, 32, 64, 256, 1024, 4096};
    for (int nfft : nffts) {
        for (const Cfg& c : seg_grid(nfft, T ? 64 : 16, 32, T)) {
            for (int wk = 0; wk < (T ? (int)WK_N : 4); ++wk) {
                const std::vector<double> w = own_window(wk, c.wl);
                if (!usable(w)) continue;
                for (int yk = 0; yk < NY; ++yk) {
                    const YL& yl = YS[yk];
                    if (yl.deep && !T) continue;
                    for (int form = 0; form < 4; ++form) {
                        if ((form == 1 || form == 3) && wk != WK_HAMM) continue;
                        int p2 = 1;
                        while (p2 < c.wl) p2 *= 2;
                        if (form >= 2 && (c.nov != c.wl / 2 || nfft != p2)) continue;
                        coh_case(ctx, nfft, w, WKN[wk], c.nov, form, yl, 0);
                    }
                }
            }
        }
    }
    // ---- default-argument overload forms with window lengths that are not powers of two (nfft = 2^nextpow2(winlen),
    //      noverlap = winlen/2, hamming for the winlen forms)
    std::vector<int> wls;
    if (T) {
        for (int w = 2; w <= 300; ++w) wls.push_back(w);
        for (int w : {500, 513, 1000, 1023, 1025, 2000, 3000, 4095, 4097}) wls.push_back(w);
    } else {
        wls = {3, 5, 6, 7, 9, 12, 17, 24, 31, 33, 48, 63, 65, 100, 129, 200, 255, 257, 1000};
    }
    for (int wl : wls) {
        if ((wl & (wl - 1)) == 0) continue;   // powers of two are covered by the grid above
        int p2 = 1;
        while (p2 < wl) p2 *= 2;
        for (int form = 1; form <= 3; ++form) {
            const int wk = form == 2 ? WK_BLACK : WK_HAMM;
            const std::vector<double> w = own_window(wk, wl);
            if (!usable(w)) continue;
            for (int yk : {3, 4, 5, 7, 10})   // x*1e3, filtered, independent, x*-1e-13, x*1e13
                coh_case(ctx, form == 1 ? 2 * p2 : p2, w, WKN[wk], wl / 2, form, YS[yk], wl + 3 * (wl - wl / 2) + 5);
        }
    }
}

// ------------------------------------------------------------------------------------------------ power peak, odd window lengths
// Power-scaled level of a bin-centred tone for window lengths that are not powers of two (129, 201, 257, 258, 333, 511,
// 1001 ...; the window-power compensation sums over the whole window, whatever its length).  Complex tone: the level is
// A^2 exactly for every non-negative window and window length (no image), so the statement applies as written.  Real tone:
// the negative-frequency image leaks into the bin unless the window transform vanishes there; the exact Welch estimate of
// the harness's own segments gives that leakage, and the library may deviate from A^2/2 by no more than this leakage plus
// the 1e-9 tolerance (weaker reading - never stricter than the statement where it applies exactly).
static void peak_winlen_case(Ctx& ctx, bool cplx, int wl, int nfft, int nov, int wk, long long k) {
    static const double amps[3] = {1e-3, 1, 1e3};
    const Cfg c{nfft, wl, nov};
    if (!ctx.take("welch.power_peak", cfg_params(cplx, c, wk).kv("k", k))) return;
    const std::vector<double> w = own_window(wk, wl);
    const int st = wl - nov, N = wl + 2 * st + (st - 1);
    const Sig u = tone(cplx, N, k, nfft, 0.3L + 0.37L * (ld)(((k % 5) + 5) % 5), 1);
    const ld want1 = cplx ? 1.0L : 0.5L;
    ld leak = 0;
    if (!cplx) {
        const int nb = nfft / 2 + 1;
        std::vector<ld> Pr = ref_welch(u, w, nov, nfft, true, nb);
        ld pm = 0;
        for (int i = 0; i < nb; ++i) pm = std::max(pm, (i > 0 && i < nfft / 2) ? 2 * Pr[(size_t)i] : Pr[(size_t)i]);
        leak = fabsl(pm / want1 - 1);
        ctx.worst("odd winlen: image leakage allowed for real tones (rel)", (double)leak);
    }
    ctx.nontrivial();
    ctx.note(std::string("power_peak winlen set, ") + (cplx ? "complex " : "real ") + WKN[wk]);
    for (int ai = 0; ai < 3; ++ai) {
        const double A = amps[ai];
        const Res r = call_welch(scaled(u, A), w, nov, nfft, true, 0);
        if (!check_shape(ctx, r, cplx, nfft)) return;
        double mx = 0;
        for (double v : r.pxx) mx = std::max(mx, v);
        const double want = (double)want1 * A * A;
        const double rel = std::fabs(mx / want - 1);
        ctx.worst(cplx ? "power peak rel err, odd winlen, complex" : "power peak rel err beyond allowed leakage, odd winlen, real",
                  cplx ? rel : std::max(0.0, rel - (double)leak));
        if (!(rel <= 1e-9 + (double)leak)) {
            ctx.fail(site_of(cplx), fmt("max(pxx)=%.15g", mx),
                     cplx ? fmt("%.15g (mean square of the tone)", want)
                          : fmt("%.15g (mean square of the tone) within the image leakage %.3g of the exact estimate", want, (double)leak),
                     P().kv("aspect", "peak").kv("amp", A).kv("ratio", mx / want));
            return;
        }
    }
}

static void check_peak_winlens(Ctx& ctx, bool T) {
    auto run = [&](int wl, const std::vector<int>& wks, bool both_nfft) {
        int p2 = 1;
        while (p2 < wl) p2 *= 2;
        std::vector<int> nffts = {p2};
        if (both_nfft) nffts.push_back(2 * p2);
        for (int nfft : nffts)
            for (int wk : wks)
                for (int nov : {0, wl / 2})
                    for (int cplx = 0; cplx < 2; ++cplx) {
                        const std::vector<long long> ks = cplx ? std::vector<long long>{nfft / 3, -(long long)(nfft / 8)}
                                                               : std::vector<long long>{nfft / 8, nfft / 3};
                        for (long long k : ks) peak_winlen_case(ctx, cplx != 0, wl, nfft, nov, wk, k);
                    }
    };
    for (int wl : {129, 201, 257, 258, 333, 511, 1001}) run(wl, {WK_RECT, WK_HAMM, WK_HANNP, WK_KAISER}, true);
    if (T)
        for (int wl = 129; wl <= 600; ++wl) run(wl, {WK_HAMM, WK_RECT}, false);
}

// ------------------------------------------------------------------------------------------------ silent segments
// Signals that contain whole segments of EXACT zeros (muted stretches): the estimate is the mean over ALL segments, silent
// ones included.  Letters over a record of 8 segments (N = winlen + 7 hop + r): a zero run of winlen + hop samples starting
// at a segment start (aligned) or hop/2 later (unaligned), a short run that silences no whole segment, leading / trailing
// silence, a burst of one window length inside silence, a single non-zero sample, and the all-zero record.
// Oracles: density sum against own segmentation (silent segments counted; all-zero record: the sum must be 0);
// power-scaled peak of a gated bin-centred complex tone = A^2 mean_seg (sum_n w[n] g[n])^2 / (sum w)^2 with the gate g of
// the harness's own segmentation (every term of the windowed sum is in phase at the tone's bin, so this is exact for any
// non-negative window; for an ungated tone it is the statement's A^2); real tones only where every segment is either
// whole or silent and the rectangular window of nfft points makes them leakage-free (A^2/2 times the fraction of live
// segments); coherence range / unity for scaled copies of such signals.
static const char* SILN[8] = {"gap_aligned", "gap_unaligned", "gap_short", "lead", "trail", "burst", "onesample", "allzero"};
static std::vector<char> sil_gate(int letter, int N, int wl, int st, int rem) {
    std::vector<char> g((size_t)N, 1);
    auto zero = [&](long long a, long long b) {
        for (long long i = std::max(0LL, a); i < std::min((long long)N, b); ++i) g[(size_t)i] = 0;
    };
    switch (letter) {
    case 0: zero(2LL * st, 2LL * st + wl + st); break;
    case 1: zero(2LL * st + std::max(1, st / 2), 2LL * st + std::max(1, st / 2) + wl + st); break;
    case 2: zero(2LL * st + 1, 2LL * st + wl - 1); break;
    case 3: zero(0, (long long)wl + st); break;
    case 4: zero((long long)N - (wl + st + rem), N); break;
    case 5: zero(0, 3LL * st), zero(3LL * st + wl, N); break;
    case 6: zero(0, N), g[(size_t)(2 * st + wl / 2)] = 1; break;
    default: zero(0, N); break;
    }
    return g;
}
static Sig gated(const Sig& b, const std::vector<char>& g) {
    Sig s = b;
    for (size_t i = 0; i < g.size(); ++i)
        if (!g[i]) s.re[i] = 0.0, s.im[i] = 0.0;
    return s;
}

static void check_silence(Ctx& ctx, bool T) {
    const std::vector<int> nffts = T ? std::vector<int>{8, 16, 32, 64, 256, 1024} : std::vector<int>{16, 64, 256};
    const std::vector<int> wks = T ? std::vector<int>{WK_RECT, WK_HAMM, WK_HANN, WK_KAISER, WK_BLACK, WK_BH, WK_COS, WK_GAUSS, WK_TUKEY, WK_HANNP}
                                   : std::vector<int>{WK_RECT, WK_HAMM, WK_HANN, WK_KAISER};
    static const double amps[3] = {1e-3, 1, 1e3};
    for (int nfft : nffts) {
        const Cfg cfgs[5] = {{nfft, nfft, 0}, {nfft, nfft, nfft / 2}, {nfft, nfft / 2, 0}, {nfft, nfft - 3, 2}, {nfft, nfft / 2, nfft / 2 - 1}};
        for (const Cfg& c : cfgs) {
            const int wl = c.wl, st = wl - c.nov, rem = st > 1 ? st - 1 : 0, N = wl + 7 * st + rem, S = 8;
            for (int wk : wks) {
                const std::vector<double> w = own_window(wk, wl);
                if (!usable(w)) continue;
                ld sw = 0;
                for (double v : w) sw += v;
                for (int cplx = 0; cplx < 2; ++cplx) {
                    // ---- density scaling: power identity, silent segments included
                    for (int L = 0; L < 8; ++L) {
                        if (!ctx.take("welch.density_sum", cfg_params(cplx != 0, c, wk).kv("N", N).kv("letter", SILN[L]))) continue;
                        Sig x = gated(dense(cplx != 0, N, 47), sil_gate(L, N, wl, st, rem));
                        if (L == 6) {
                            x.re[(size_t)(2 * st + wl / 2)] = 1.5;
                            if (cplx) x.im[(size_t)(2 * st + wl / 2)] = -0.5;
                        }
                        ctx.nontrivial();
                        ctx.note(std::string("silence: density ") + SILN[L]);
                        const Res r = call_welch(x, w, c.nov, nfft, false, 0);
                        if (!check_shape(ctx, r, cplx != 0, nfft)) continue;
                        ld s = 0;
                        for (double v : r.pxx) s += v;
                        const ld e = ref_density_sum(x, w, c.nov, nfft);
                        if (e == 0) {   // every windowed segment is silent: the identity demands a zero spectrum
                            ctx.note("silence: density expectation exactly 0");
                            if (!(s == 0))
                                ctx.fail(site_of(cplx != 0), fmt("sum(pxx)=%.15g", (double)s), "0 (every windowed segment is zero)",
                                         P().kv("aspect", "sum0"));
                            continue;
                        }
                        const double rel = (double)(fabsl(s - e) / e);
                        ctx.worst("density sum rel err, silent segments", std::isnan(rel) ? INFINITY : rel);
                        if (!(rel <= 1e-10))
                            ctx.fail(site_of(cplx != 0), fmt("sum(pxx)=%.15g", (double)s),
                                     fmt("%.15g = nfft*mean over all %d segments (silent ones included) of sum|seg*win|^2/(win.win)", (double)e, S),
                                     P().kv("aspect", "sum").kv("ratio", (double)(s / e)));
                    }
                    // ---- power scaling of the all-zero record: finite, non-negative, zero
                    if (ctx.take("welch.shape", cfg_params(cplx != 0, c, wk).kv("N", N).kv("scale", "power").kv("letter", "allzero"))) {
                        Sig x = gated(dense(cplx != 0, N, 47), sil_gate(7, N, wl, st, rem));
                        ctx.nontrivial();
                        const Res r = call_welch(x, w, c.nov, nfft, true, 0);
                        if (check_shape(ctx, r, cplx != 0, nfft)) {
                            double mx = 0;
                            for (double v : r.pxx) mx = std::max(mx, v);
                            if (!(mx == 0)) ctx.fail(site_of(cplx != 0), fmt("max(pxx)=%.15g", mx), "0 (all-zero input)", P().kv("aspect", "sum0"));
                        }
                    }
                    // ---- power scaling: peak of a gated bin-centred tone
                    for (int L : {0, 1, 3, 4, 5}) {
                        const bool whole = c.nov == 0 && L != 1;   // every segment is either whole or silent
                        if (!cplx && !(whole && wk == WK_RECT && wl == nfft)) continue;
                        for (long long k : {(long long)(nfft / 4), -(long long)(nfft / 8)}) {
                            if (!cplx && k < 0) continue;
                            if (!ctx.take("welch.power_peak", cfg_params(cplx != 0, c, wk).kv("N", N).kv("letter", SILN[L]).kv("k", k))) continue;
                            const std::vector<char> g = sil_gate(L, N, wl, st, rem);
                            const Sig u = gated(tone(cplx != 0, N, k, nfft, 0.3L, 1), g);
                            ld acc = 0;
                            int live = 0;
                            for (int sgi = 0; sgi < S; ++sgi) {
                                ld part = 0;
                                for (int n = 0; n < wl; ++n)
                                    if (g[(size_t)(sgi * st + n)]) part += w[(size_t)n];
                                acc += part * part;
                                if (part > 0) ++live;
                            }
                            const ld want1 = (cplx ? 1.0L : 0.5L) * acc / (ld)S / (sw * sw);
                            if (!(want1 > 0)) continue;
                            ctx.nontrivial();
                            ctx.note(fmt("silence: power_peak %s, %d of %d segments live", cplx ? "complex" : "real", live, S));
                            for (int ai = 0; ai < 3; ++ai) {
                                const double A = amps[ai];
                                const Res r = call_welch(scaled(u, A), w, c.nov, nfft, true, 0);
                                if (!check_shape(ctx, r, cplx != 0, nfft)) break;
                                double mx = 0;
                                for (double v : r.pxx) mx = std::max(mx, v);
                                const double want = (double)want1 * A * A, rel = std::fabs(mx / want - 1);
                                ctx.worst("power peak rel err, silent segments", rel);
                                if (!(rel <= 1e-9)) {
                                    ctx.fail(site_of(cplx != 0), fmt("max(pxx)=%.15g", mx),
                                             fmt("%.15g = mean over all %d segments of the gated tone's level", want, S),
                                             P().kv("aspect", "peak").kv("amp", A).kv("ratio", mx / want));
                                    break;
                                }
                            }
                        }
                    }
                }
                // ---- coherence with silent segments in x (and in its copies)
                if (wk == WK_RECT || wk == WK_HAMM)
                    for (int L : {0, 3, 5, 6})
                        for (int yk = 0; yk < 3; ++yk) {
                            static const char* YK[3] = {"x*3", "filtered", "independent"};
                            P p = P().kv("nfft", nfft).kv("win", WKN[wk]).kv("winlen", wl).kv("nov", c.nov).kv("y", YK[yk]).kv("letter", SILN[L]);
                            if (!ctx.take(yk == 0 ? "mscohere.scaled_copy" : "mscohere.range", p)) continue;
                            Sig x = gated(dense(false, N, 53), sil_gate(L, N, wl, st, rem));
                            if (L == 6) x.re[(size_t)(2 * st + wl / 2)] = 1.5;
                            Sig y = x;
                            if (yk == 0) y = scaled(x, 3);
                            else if (yk == 1)
                                for (int i = 0; i < N; ++i)
                                    y.re[(size_t)i] = x.re[(size_t)i] + (i >= 1 ? 0.5 * x.re[(size_t)i - 1] : 0) - (i >= 2 ? 0.25 * x.re[(size_t)i - 2] : 0);
                            else y = dense(false, N, 59);
                            ctx.nontrivial();
                            ctx.note("silence: mscohere");
                            std::vector<double> coh;
                            try {
                                const arr_real o = mscohere(x.real_arr(), y.real_arr(), to_arr(w), c.nov, nfft);
                                coh.assign(o.begin(), o.end());
                            } catch (const std::exception& e) {
                                ctx.fail("mscohere", std::string("threw: ") + e.what(), "coherence", P().kv("aspect", "threw"));
                                continue;
                            }
                            if ((int)coh.size() != nfft / 2 + 1) {
                                ctx.fail("mscohere", fmt("size %zu", coh.size()), fmt("%d", nfft / 2 + 1), P().kv("aspect", "size"));
                                continue;
                            }
                            for (int k = 0; k < (int)coh.size(); ++k) {
                                const double v = coh[(size_t)k];
                                if (!(v >= -1e-12 && v <= 1 + 1e-12)) {
                                    ctx.fail("mscohere", fmt("coh[%d]=%.17g", k, v), "in [0,1]", P().kv("aspect", "range").kv("k", k));
                                    break;
                                }
                                if (yk == 0) {
                                    ctx.worst("scaled copy |coh-1|, silent segments", std::fabs(v - 1));
                                    if (!(std::fabs(v - 1) <= 1e-9)) {
                                        ctx.fail("mscohere", fmt("coh[%d]=%.17g for y = 3x", k, v), "1 within 1e-9", P().kv("aspect", "one").kv("k", k));
                                        break;
                                    }
                                }
                            }
                        }
            }
        }
    }
}

// ------------------------------------------------------------------------------------------------ every public overload
// include/dsplib/spectrum.h declares, for real and for complex input alike, four welch overloads
//   0: welch(x, int winlen, scale = Psd)                       hamming(winlen), noverlap = winlen/2, nfft = 2^nextpow2(winlen)
//   1: welch(x, win, scale = Psd)                              noverlap = winlen/2, nfft = 2^nextpow2(winlen)
//   2: welch(x, int winlen, noverlap, nfft, scale = Psd)       hamming(winlen)
//   3: welch(x, win, noverlap, nfft, scale = Psd)
// each callable with the scale omitted, = Psd, = Power: 4 x 3 x 2 inputs = 24 overload x type combinations.  Every one must
// return, bit for bit, what the fully explicit form welch(x, win_array, noverlap, nfft, type) returns for the documented
// defaults (the window of the winlen forms is the library's own window::hamming(winlen)).  Likewise the three shorter
// mscohere overloads against mscohere(x, y, win_array, noverlap, nfft) (there is no scale argument).
static WelchResult welch_ov(const arr_real& x, int ov, int tm, const arr_real& win, int nov, int nfft) {
    const int wl = win.size();
    const SpectrumType t = tm == 2 ? SpectrumType::Power : SpectrumType::Psd;
    switch (ov) {
    case 0: return tm == 0 ? welch(x, wl) : welch(x, wl, t);
    case 1: return tm == 0 ? welch(x, win) : welch(x, win, t);
    case 2: return tm == 0 ? welch(x, wl, nov, nfft) : welch(x, wl, nov, nfft, t);
    default: return tm == 0 ? welch(x, win, nov, nfft) : welch(x, win, nov, nfft, t);
    }
}
static WelchResult welch_ov(const arr_cmplx& x, int ov, int tm, const arr_real& win, int nov, int nfft) {
    const int wl = win.size();
    const SpectrumType t = tm == 2 ? SpectrumType::Power : SpectrumType::Psd;
    switch (ov) {
    case 0: return tm == 0 ? welch(x, wl) : welch(x, wl, t);
    case 1: return tm == 0 ? welch(x, win) : welch(x, win, t);
    case 2: return tm == 0 ? welch(x, wl, nov, nfft) : welch(x, wl, nov, nfft, t);
    default: return tm == 0 ? welch(x, win, nov, nfft) : welch(x, win, nov, nfft, t);
    }
}

static void check_overloads(Ctx& ctx, bool T) {
    static const char* OVN[4] = {"(x,winlen[,type])", "(x,win[,type])", "(x,winlen,nov,nfft[,type])", "(x,win,nov,nfft[,type])"};
    static const char* TMN[3] = {"omitted", "Psd", "Power"};
    std::vector<int> wls;
    if (T) {
        for (int w = 2; w <= 300; ++w) wls.push_back(w);
        for (int w : {500, 513, 1000, 1023, 1024, 1025, 2000, 4095, 4097}) wls.push_back(w);
    } else {
        wls = {2, 3, 5, 8, 16, 17, 31, 32, 33, 64, 65, 100, 129, 200, 256, 257, 1000};
    }
    for (int wl : wls) {
        int p2 = 1;
        while (p2 < wl) p2 *= 2;
        for (int ov = 0; ov < 4; ++ov) {
            std::vector<Cfg> cs;
            if (ov >= 2) {
                for (int nfft : {p2, 2 * p2})
                    for (int nov : uniq({0, 1, wl / 2, wl - 1})) cs.push_back({nfft, wl, nov});
            } else {
                cs.push_back({p2, wl, wl / 2});
            }
            for (const Cfg& c : cs)
                for (int cplx = 0; cplx < 2; ++cplx)
                    for (int tm = 0; tm < 3; ++tm) {
                        P p = P().kv("input", cplx ? "complex" : "real").kv("overload", OVN[ov]).kv("type", TMN[tm]).kv("winlen", wl).kv("nov", c.nov).kv("nfft", c.nfft);
                        if (!ctx.take("welch.forms", p)) continue;
                        ctx.nontrivial();
                        ctx.note(fmt("overload %s %s type %s", cplx ? "complex" : "real", OVN[ov], TMN[tm]));
                        const int st = wl - c.nov, N = wl + 2 * st + (st - 1);
                        const Sig x = dense(cplx != 0, N, 61 + (uint64_t)N);
                        // the window the overload is documented to use: hamming(winlen) for the winlen forms, else a kaiser array
                        std::vector<double> pa, fa, pb, fb;
                        try {
                            const arr_real win = (ov == 0 || ov == 2) ? window::hamming(wl) : to_arr(own_window(WK_KAISER, wl));
                            const SpectrumType t = tm == 2 ? SpectrumType::Power : SpectrumType::Psd;
                            if (cplx) {
                                const arr_cmplx a = x.cmplx_arr();
                                const WelchResult o = welch_ov(a, ov, tm, win, c.nov, c.nfft), e = welch(a, win, c.nov, c.nfft, t);
                                pa.assign(o.pxx.begin(), o.pxx.end()), fa.assign(o.f.begin(), o.f.end());
                                pb.assign(e.pxx.begin(), e.pxx.end()), fb.assign(e.f.begin(), e.f.end());
                            } else {
                                const arr_real a = x.real_arr();
                                const WelchResult o = welch_ov(a, ov, tm, win, c.nov, c.nfft), e = welch(a, win, c.nov, c.nfft, t);
                                pa.assign(o.pxx.begin(), o.pxx.end()), fa.assign(o.f.begin(), o.f.end());
                                pb.assign(e.pxx.begin(), e.pxx.end()), fb.assign(e.f.begin(), e.f.end());
                            }
                        } catch (const std::exception& e) {
                            ctx.fail(site_of(cplx != 0), std::string("threw: ") + e.what(), "a WelchResult", P().kv("aspect", "threw"));
                            continue;
                        }
                        bool same = pa.size() == pb.size() && fa.size() == fb.size();
                        size_t bad = 0;
                        for (size_t i = 0; same && i < pa.size(); ++i)
                            if (!biteq(pa[i], pb[i]) || !biteq(fa[i], fb[i])) same = false, bad = i;
                        if (!same)
                            ctx.fail(site_of(cplx != 0),
                                     pa.size() != pb.size() ? fmt("%zu values", pa.size()) : fmt("pxx[%zu]=%.17g f=%.17g", bad, pa[bad], fa[bad]),
                                     pa.size() != pb.size() ? fmt("%zu values", pb.size())
                                                            : fmt("pxx[%zu]=%.17g f=%.17g of welch(x, win_array, %d, %d, %s)", bad, pb[bad], fb[bad], c.nov, c.nfft, tm == 2 ? "Power" : "Psd"),
                                     P().kv("aspect", "overload").kv("i", (long long)bad));
                    }
        }
        // ---- mscohere: (x,y,winlen) (x,y,win) (x,y,winlen,nov,nfft) against (x,y,win,nov,nfft)
        for (int ov = 0; ov < 3; ++ov) {
            static const char* MON[3] = {"(x,y,winlen)", "(x,y,win)", "(x,y,winlen,nov,nfft)"};
            std::vector<Cfg> cs;
            if (ov == 2) {
                for (int nfft : {p2, 2 * p2})
                    for (int nov : uniq({0, 1, wl / 2, wl - 1})) cs.push_back({nfft, wl, nov});
            } else {
                cs.push_back({p2, wl, wl / 2});
            }
            for (const Cfg& c : cs) {
                if (!ctx.take("mscohere.forms", P().kv("overload", MON[ov]).kv("winlen", wl).kv("nov", c.nov).kv("nfft", c.nfft))) continue;
                ctx.nontrivial();
                ctx.note(std::string("overload mscohere ") + MON[ov]);
                const int st = wl - c.nov, N = wl + 3 * st + (st - 1);
                const Sig x = dense(false, N, 67), yb = dense(false, N, 71);
                Sig y = x;
                for (int i = 0; i < N; ++i) y.re[(size_t)i] = x.re[(size_t)i] + 0.5 * yb.re[(size_t)i];
                std::vector<double> a, b;
                try {
                    const arr_real win = (ov == 0 || ov == 2) ? window::hamming(wl) : to_arr(own_window(WK_KAISER, wl));
                    const arr_real ax = x.real_arr(), ay = y.real_arr();
                    const arr_real o = ov == 0 ? mscohere(ax, ay, wl) : ov == 1 ? mscohere(ax, ay, win) : mscohere(ax, ay, wl, c.nov, c.nfft);
                    const arr_real e = mscohere(ax, ay, win, c.nov, c.nfft);
                    a.assign(o.begin(), o.end()), b.assign(e.begin(), e.end());
                } catch (const std::exception& e) {
                    ctx.fail("mscohere", std::string("threw: ") + e.what(), "coherence", P().kv("aspect", "threw"));
                    continue;
                }
                bool same = a.size() == b.size();
                size_t bad = 0;
                for (size_t i = 0; same && i < a.size(); ++i)
                    if (!biteq(a[i], b[i])) same = false, bad = i;
                if (!same)
                    ctx.fail("mscohere", a.size() != b.size() ? fmt("%zu values", a.size()) : fmt("coh[%zu]=%.17g", bad, a[bad]),
                             a.size() != b.size() ? fmt("%zu values", b.size()) : fmt("coh[%zu]=%.17g of mscohere(x, y, win_array, %d, %d)", bad, b[bad], c.nov, c.nfft),
                             P().kv("aspect", "overload").kv("i", (long long)bad));
            }
        }
    }
}

// ------------------------------------------------------------------------------------------------ big sizes (both tiers)
// Signals of 70 000 and 140 000 samples with nfft 256 and 8192 (window length = nfft): behaviour that only shows above a
// size threshold (retained buffers, 32-bit products such as length * nfft/2, recurrences whose error grows with the index).
// Oracles: power identity with own segmentation; level of a bin-centred tone (complex: A^2 for any window; real: A^2/2 with
// the periodic Hann window, whose transform vanishes two bins away, so the image does not leak); label of a real tone a
// third of the way up the band (main lobe far from DC / Nyquist, the image is > 40 dB below the decision margin);
// coherence of scaled copies / range.
static void check_big(Ctx& ctx) {
    for (int N : {70000, 140000})
        for (int nfft : {256, 8192})
            for (int nov : {nfft / 2, nfft - nfft / 8})
                for (int wk : {WK_HAMM, WK_HANNP}) {
                    const Cfg c{nfft, nfft, nov};
                    std::vector<double> w;
                    auto win = [&]() -> const std::vector<double>& {
                        if (w.empty()) w = own_window(wk, nfft);
                        return w;
                    };
                    for (int cplx = 0; cplx < 2; ++cplx) {
                        if (ctx.take("welch.density_sum", cfg_params(cplx != 0, c, wk).kv("N", N))) density_case(ctx, dense(cplx != 0, N, 43), win(), nov, nfft, 0);
                        // bin-centred tone at bin k0 = nfft/3 (+- for complex): power-scaled peak, amplitude 3
                        for (int sgn = (cplx ? -1 : 1); sgn <= 1; sgn += 2) {
                            const long long k0 = (long long)sgn * (nfft / 3);
                            if ((cplx || wk == WK_HANNP) && ctx.take("welch.power_peak", cfg_params(cplx != 0, c, wk).kv("N", N).kv("k", k0))) {
                                ctx.nontrivial();
                                ctx.note("big: power_peak");
                                const double A = 3;
                                const Res r = call_welch(scaled(tone(cplx != 0, N, k0, nfft, 0.3L, 1), A), win(), nov, nfft, true, 0);
                                if (check_shape(ctx, r, cplx != 0, nfft)) {
                                    double mx = 0;
                                    for (double v : r.pxx) mx = std::max(mx, v);
                                    const double want = (cplx ? 1.0 : 0.5) * A * A, rel = std::fabs(mx / want - 1);
                                    ctx.worst("power peak rel err (big sizes)", rel);
                                    if (!(rel <= 1e-9))
                                        ctx.fail(site_of(cplx != 0), fmt("max(pxx)=%.15g", mx), fmt("%.15g (mean square of the tone)", want),
                                                 P().kv("aspect", "peak").kv("ratio", mx / want));
                                }
                            }
                        }
                        // real tone at k0 + {0, 1/4, 3/4} bins: the peak must carry the nearest label
                        if (!cplx)
                            for (int off : {0, 1, 3}) {
                                const long long q = 4LL * (nfft / 3) + off;
                                if (!ctx.take("welch.tone_label", cfg_params(false, c, wk).kv("N", N).kv("q", q).kv("ppb", 4))) continue;
                                ctx.nontrivial();
                                ctx.note("big: tone_label");
                                const Res r = call_welch(tone(false, N, q, nfft, 0.3L, 4), win(), nov, nfft, false, 0);
                                if (!check_shape(ctx, r, false, nfft)) continue;
                                int im = 0;
                                for (int i = 1; i < (int)r.pxx.size(); ++i)
                                    if (r.pxx[(size_t)i] > r.pxx[(size_t)im]) im = i;
                                const double f0 = (double)q / (4.0 * nfft);
                                if (!(std::fabs(r.f[(size_t)im] - f0) <= 0.5 / nfft + 1e-12))
                                    ctx.fail("welch_real", fmt("tone at %.7f: peak index %d labelled f=%.7f", f0, im, r.f[(size_t)im]),
                                             "label within half a bin of the tone", P().kv("aspect", "label").kv("imax", im));
                            }
                    }
                    // coherence on the same sizes: scaled copies (1e3, -1e-13), filtered and independent letters
                    if (wk == WK_HAMM)
                        for (int yk : {3, 7, 4, 5}) coh_case(ctx, nfft, win(), WKN[wk], nov, 0, YS[yk], N);
                }
}

int main(int argc, char** argv) {
    Ctx ctx;
    ctx.parse(argc, argv, "C13");
    const bool T = ctx.thorough();
    check_grid(ctx, T);
    check_forms(ctx, T);
    check_tones(ctx, T);
    check_coherence(ctx, T);
    check_big(ctx);
    check_peak_winlens(ctx, T);
    check_silence(ctx, T);
    check_overloads(ctx, T);
    return ctx.finish();
}
