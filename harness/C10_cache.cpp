// C10 - transform results do not depend on call history; plan caching is transparent.
// Engine E2 (history exploration on the real per-thread plan caches): for a cache size K (one build per K) and
// an alphabet of 6 request letters, EVERY request sequence of length <= d is executed in a fresh thread (fresh
// thread_local caches), and its last request is checked:
//   (1) the result is bit-identical to the same call made in a brand-new thread;
//   (2) through the DSPLIB_VERIF accessors, the key lists of both caches before (B) and after (A) the request satisfy the
//       LRU discipline: |A| <= K; A = T ++ prefix(B \ T) for some list T of keys touched by this request (recency order
//       of the untouched keys preserved, only least-recently-used keys disappear); the plan the request needs is the most
//       recent key of its cache; touched keys are plausible lengths (<= 64x the requested one; sanity only).
// Alphabet D adds long-lived plan objects: hold(n) constructs a plan and keeps it, use(j) solves with the j-th held plan.
// A deterministic long sequence (10^4 requests over 40 lengths with held plans) is run per K as well.
// --asan-pass: the same exploration at reduced depth in forked children under ASan (use-after-eviction).
#include "vf_fork.hpp"
#include <thread>

namespace dsplib { namespace verif {
std::vector<int> fft_cache_keys();
std::vector<int> rfft_cache_keys();
int fft_cache_capacity();
} }

using namespace vf;
using namespace dsplib;

enum Kind { FFT_C, FFT_R, IFFT, IRFFT, HOLD_C, HOLD_R, HOLD_I, USE, BAD_C, HOLD_IR, HOLD_Z, PAD_C, PAD_R, USEBAD, HUGE_C, HUGE_I };
struct Req {
    Kind kind;
    int n;   // length; for USE: index of the held plan (mod number held)
};
static std::string rname(const Req& r) {
    static const char* k[] = {"fft", "rfft", "ifft", "irfft", "holdC", "holdR", "holdI", "use", "fftplan-wrong-length", "holdIR", "holdCzt", "fftpad", "rfftpad", "use-wrong-length", "fft-of-1e308-data", "ifft-of-1e308-data"};
    return std::string(k[r.kind]) + std::to_string(r.n);
}

static arr_cmplx cin(int n, uint64_t tag) {
    arr_cmplx x(n);
    for (int i = 0; i < n; ++i) x[i] = cmplx_t(lcg_val(tag, (uint64_t)i), lcg_val(tag + 7, (uint64_t)i));
    return x;
}
static arr_real rin(int n, uint64_t tag) {
    arr_real x(n);
    for (int i = 0; i < n; ++i) x[i] = lcg_val(tag, (uint64_t)i);
    return x;
}

// output of a request as raw doubles
using Out = std::vector<double>;
static Out flat(const arr_cmplx& a) {
    Out o((size_t)a.size() * 2);
    for (int i = 0; i < a.size(); ++i) {
        o[2 * (size_t)i] = a[i].re;
        o[2 * (size_t)i + 1] = a[i].im;
    }
    return o;
}
static Out flat(const arr_real& a) { return Out(a.begin(), a.end()); }

struct Held {
    int kind, n;
    std::shared_ptr<FftPlan> c;
    std::shared_ptr<FftPlanR> r;
    std::shared_ptr<IfftPlan> i;
    std::shared_ptr<IfftPlanR> ir;
    std::shared_ptr<CztPlan> z;
};

static Out exec_raw(const Req& q, std::vector<Held>& held);
static bool is_thrown(const Out& o) { return o.size() == 1 && o[0] == -7.25e300; }
// executes one request in the calling thread; `held` is the thread's list of long-lived plans.
// A request that is rejected with a C++ exception (odd irfft length, plan applied to another length) is a legitimate
// part of a history: its "result" is the marker {-7.25e300}; what follows must be unaffected by it.
static Out exec(const Req& q, std::vector<Held>& held) {
    try {
        return exec_raw(q, held);
    } catch (const std::exception&) {
        return Out{-7.25e300};
    }
}
static Out exec_raw(const Req& q, std::vector<Held>& held) {
    switch (q.kind) {
    case PAD_C: return flat(fft(cin(q.n / 1000, 21), q.n % 1000));    // n = input length * 1000 + transform length
    case PAD_R: return flat(rfft(rin(q.n / 1000, 22), q.n % 1000));
    case HUGE_C: {   // legal finite data at the top of the double range: the transform overflows to inf / nan (and raises FE_OVERFLOW)
        arr_cmplx x = cin(q.n, 24);
        for (int i = 0; i < q.n; ++i) x[i] = x[i] * 1.5e308;
        return flat(fft(x));
    }
    case HUGE_I: {
        arr_cmplx x = cin(q.n, 25);
        for (int i = 0; i < q.n; ++i) x[i] = x[i] * 1.5e308;
        return flat(ifft(x));
    }
    case BAD_C: {
        FftPlan p(q.n);
        return flat(p.solve(cin(q.n + 1, 18)));
    }
    case FFT_C: return flat(fft(cin(q.n, 11)));
    case FFT_R: return flat(rfft(rin(q.n, 12)));
    case IFFT: return flat(ifft(cin(q.n, 13)));
    case IRFFT: return flat(irfft(cin(q.n / 2 + 1, 14), q.n));
    case HOLD_C: {
        Held h{HOLD_C, q.n, std::make_shared<FftPlan>(q.n), nullptr, nullptr, nullptr, nullptr};
        held.push_back(h);
        return flat(h.c->solve(cin(q.n, 15)));
    }
    case HOLD_R: {
        Held h{HOLD_R, q.n, nullptr, std::make_shared<FftPlanR>(q.n), nullptr, nullptr, nullptr};
        held.push_back(h);
        return flat(h.r->solve(rin(q.n, 16)));
    }
    case HOLD_I: {
        Held h{HOLD_I, q.n, nullptr, nullptr, std::make_shared<IfftPlan>(q.n), nullptr, nullptr};
        held.push_back(h);
        return flat(h.i->solve(cin(q.n, 17)));
    }
    case HOLD_IR: {
        Held h{HOLD_IR, q.n, nullptr, nullptr, nullptr, std::make_shared<IfftPlanR>(q.n), nullptr};
        held.push_back(h);
        return flat(h.ir->solve(cin(q.n / 2 + 1, 19)));
    }
    case HOLD_Z: {
        Held h{HOLD_Z, q.n, nullptr, nullptr, nullptr, nullptr, std::make_shared<CztPlan>(q.n, q.n + 2, expj(-2 * pi / (q.n + 2)), cmplx_t(0.9, 0.2))};
        held.push_back(h);
        return flat(h.z->solve(cin(q.n, 20)));
    }
    case USEBAD: {   // a held plan applied to another length: must be rejected and leave the plan usable
        if (held.empty()) return Out();
        Held& h = held[(size_t)q.n % held.size()];
        if (h.kind == HOLD_IR) return flat(h.ir->solve(cin(h.n / 2 + 3, 23)));
        if (h.kind == HOLD_Z) return flat(h.z->solve(cin(h.n + 1, 23)));
        if (h.kind == HOLD_C) return flat(h.c->solve(cin(h.n + 1, 23)));
        if (h.kind == HOLD_R) return flat(h.r->solve(rin(h.n + 1, 23)));
        return flat(h.i->solve(cin(h.n + 1, 23)));
    }
    case USE: {
        if (held.empty()) return Out();
        Held& h = held[(size_t)q.n % held.size()];
        if (h.kind == HOLD_IR) return flat(h.ir->solve(cin(h.n / 2 + 1, 19)));
        if (h.kind == HOLD_Z) return flat(h.z->solve(cin(h.n, 20)));
        if (h.kind == HOLD_C) return flat(h.c->solve(cin(h.n, 15)));
        if (h.kind == HOLD_R) return flat(h.r->solve(rin(h.n, 16)));
        return flat(h.i->solve(cin(h.n, 17)));
    }
    }
    return Out();
}

// the same request in a brand-new thread: for USE the reference is the held plan's construction-time result
static Out fresh(const Req& q) {
    Out o;
    std::thread t([&] {
        std::vector<Held> h;
        o = exec(q, h);
    });
    t.join();
    return o;
}

static bool same(const Out& a, const Out& b) { return a.size() == b.size() && (a.empty() || memcmp(a.data(), b.data(), a.size() * 8) == 0); }

static bool cacheable(int n) { return !(n == 1 || n == 2 || n == 4 || n == 8); }

// LRU discipline between the key lists before (B) and after (A) one request
static std::string lru_check(const std::vector<int>& B, const std::vector<int>& A, int K, int primary, int nreq, const std::set<int>* allowed = nullptr) {
    if ((int)A.size() > K) return fmt("cache holds %zu > %d keys", A.size(), K);
    for (size_t i = 0; i < A.size(); ++i)
        for (size_t j = i + 1; j < A.size(); ++j)
            if (A[i] == A[j]) return "duplicate key in the cache list";
    if (allowed) {   // a key that was not cached before must be one this request creates when it is the first request of a fresh process
        for (int a : A) {
            bool inB = false;
            for (int b : B) inB |= a == b;
            if (!inB && a != primary && !allowed->count(a))
                return fmt("key %d appeared in the calling thread's cache although this request never creates it (plan of another thread / request?)", a);
        }
    }
    bool need_primary = primary > 0 && cacheable(primary);
    if (need_primary && (A.empty() || A[0] != primary)) return fmt("requested plan %d is not the most recently used key", primary);
    for (size_t t = need_primary ? 1 : 0; t <= A.size(); ++t) {
        bool ok = true;
        for (size_t i = 0; i < t && ok; ++i) ok = (long long)A[i] <= 64LL * std::max(nreq, 2);   // sanity only: no garbage keys
        if (!ok) break;
        // R = A[t:], must equal the first |R| elements of B with the elements of T removed
        std::vector<int> rest;
        for (int b : B) {
            bool inT = false;
            for (size_t i = 0; i < t; ++i) inT |= A[i] == b;
            if (!inT) rest.push_back(b);
        }
        size_t nr = A.size() - t;
        if (nr > rest.size()) continue;
        bool eq = true;
        for (size_t i = 0; i < nr && eq; ++i) eq = A[t + i] == rest[i];
        if (eq) return "";
    }
    return "key list after the request is not (touched keys) ++ (most recent untouched keys in their old order)";
}

static int primary_key(const Req& q, bool real_cache) {
    switch (q.kind) {
    case FFT_C:
    case IFFT:
    case HOLD_C:
    case BAD_C:
    case HOLD_I: return real_cache ? 0 : q.n;
    case IRFFT:
    case HOLD_IR: return real_cache ? 0 : q.n / 2;
    case HUGE_C:
    case HUGE_I: return real_cache ? 0 : q.n;
    case PAD_C: return real_cache ? 0 : q.n % 1000;
    case PAD_R: return real_cache ? q.n % 1000 : 0;
    case FFT_R:
    case HOLD_R: return real_cache ? q.n : 0;
    default: return 0;
    }
}

struct SeqResult {
    std::string err, site;
    std::vector<int> Bc, Ac, Br, Ar;
};

// run `seq` in a fresh thread, check its last request
struct Touch {
    std::set<int> c, r;
};
static SeqResult run_seq(const std::vector<Req>& seq, const std::vector<Out>& fresh_out, const std::vector<int>& letter_idx, int K,
                         bool check_all, const std::vector<Touch>* touch = nullptr) {
    SeqResult res;
    std::thread t([&] {
        try {
            std::vector<Held> held;
            std::vector<Out> held_ref;   // construction-time outputs of held plans
            for (size_t s = 0; s < seq.size(); ++s) {
                const Req& q = seq[s];
                bool last = s + 1 == seq.size();
                std::vector<int> Bc, Br;
                if (last || check_all) {
                    Bc = verif::fft_cache_keys();
                    Br = verif::rfft_cache_keys();
                }
                size_t nheld = held.size();
                Out o = exec(q, held);
                if (held.size() > nheld) held_ref.push_back(o);
                if (!(last || check_all)) continue;
                std::vector<int> Ac = verif::fft_cache_keys(), Ar = verif::rfft_cache_keys();
                if (last) {
                    res.Bc = Bc;
                    res.Ac = Ac;
                    res.Br = Br;
                    res.Ar = Ar;
                }
                const Out* ref = nullptr;
                if (q.kind == USE) {
                    if (!held.empty()) ref = &held_ref[(size_t)q.n % held.size()];
                } else if (q.kind == USEBAD) {
                    if (!held.empty() && !is_thrown(o) && res.err.empty()) {
                        res.err = fmt("step %zu (%s): a held plan applied to an input of another length was not rejected", s, rname(q).c_str());
                        res.site = "result";
                    }
                } else {
                    ref = &fresh_out[(size_t)letter_idx[s]];
                }
                if (ref && !same(o, *ref) && res.err.empty()) {
                    res.err = fmt("step %zu (%s): result differs from the same call in a fresh thread (size %zu vs %zu)", s, rname(q).c_str(),
                                  o.size(), ref->size());
                    res.site = "result";
                }
                int nreq = (q.kind == USE || q.kind == USEBAD) ? 1 << 20 : ((q.kind == PAD_C || q.kind == PAD_R) ? q.n % 1000 : q.n);
                const bool thrown = is_thrown(o);   // a rejected request need not have cached its plan
                const Touch* tq = (touch && (size_t)letter_idx[s] < touch->size()) ? &(*touch)[(size_t)letter_idx[s]] : nullptr;
                std::string e1 = lru_check(Bc, Ac, K, thrown ? 0 : primary_key(q, false), nreq, tq ? &tq->c : nullptr);
                std::string e2 = lru_check(Br, Ar, K, thrown ? 0 : primary_key(q, true), nreq, tq ? &tq->r : nullptr);
                if ((!e1.empty() || !e2.empty()) && res.err.empty()) {
                    res.err = fmt("step %zu (%s): %s cache: %s; before %s / after %s", s, rname(q).c_str(), e1.empty() ? "real" : "complex",
                                  (e1.empty() ? e2 : e1).c_str(), show(e1.empty() ? Br : Bc).c_str(), show(e1.empty() ? Ar : Ac).c_str());
                    res.site = "lru";
                }
            }
        } catch (const std::exception& e) {
            res.err = std::string("exception: ") + e.what();
            res.site = "exception";
        }
    });
    t.join();
    return res;
}

struct Alphabet {
    const char* name;
    std::vector<Req> letters;
};

int main(int argc, char** argv) {
    Ctx ctx;
    ctx.parse(argc, argv, "C10");
    bool asan = false;
    for (int i = 1; i < argc; ++i)
        if (std::string(argv[i]) == "--asan-pass") asan = true;
    const int K = verif::fft_cache_capacity();
    const bool T = ctx.thorough();
    // the capacity the library was CONFIGURED with (DSPLIB_FFT_CACHE_SIZE of this build, handed over by the driver): the caches must
    // hold exactly that many plans - a library that quietly enlarges a small configured size keeps more plans than it was told to
    int configured = -1;
    for (int i = 1; i + 1 < argc; ++i)
        if (std::string(argv[i]) == "--configured-k") configured = atoi(argv[i + 1]);
    if (configured > 0 && ctx.take("capacity", P().kv("configured", configured))) {
        ++ctx.evaluations;
        ++ctx.checks["capacity"].evals;
        ctx.nontrivial();
        if (K != configured)
            ctx.fail("capacity", fmt("the plan caches hold %d plans per thread", K), fmt("%d, the configured cache size of this build", configured), P().kv("configured", configured).kv("actual", K));
    }

    std::vector<Alphabet> alphs = {
        {"A", {{FFT_C, 16}, {FFT_C, 12}, {FFT_C, 7}, {FFT_C, 60}, {FFT_C, 53}, {FFT_C, 9}}},
        {"B", {{FFT_R, 16}, {FFT_R, 12}, {FFT_R, 7}, {FFT_R, 60}, {FFT_R, 53}, {FFT_R, 30}}},
        {"C", {{FFT_C, 12}, {FFT_R, 12}, {IFFT, 10}, {IRFFT, 12}, {FFT_C, 53}, {FFT_R, 15}}},
        {"E", {{IRFFT, 12}, {IRFFT, 13}, {IRFFT, 14}, {BAD_C, 12}, {FFT_C, 12}, {FFT_R, 14}}},
        {"G", {{PAD_C, 5016}, {PAD_C, 12016}, {PAD_C, 20016}, {PAD_R, 5016}, {PAD_R, 12016}, {FFT_C, 16}}},
        // big lengths: a size threshold in the caching policy (not caching / sharing plans above some length) only shows here
        {"H", {{FFT_C, 65536}, {FFT_C, 65552}, {FFT_C, 131072}, {FFT_R, 131072}, {IFFT, 98304}, {FFT_C, 4099}}},
        // lengths whose primality test walks beyond the built-in prime table (a cursor / generator that survives between calls)
        {"I", {{FFT_C, 70747}, {FFT_C, 66049}, {FFT_C, 100003}, {FFT_R, 132098}, {FFT_C, 66047}, {IFFT, 69169}}},
        // a request whose arithmetic overflows (finite input at the top of the range) followed by ordinary ones: sticky floating-point
        // status, error latches
        {"J", {{HUGE_C, 16}, {HUGE_I, 12}, {IFFT, 12}, {FFT_C, 53}, {IFFT, 60}, {IRFFT, 24}}},
        // nested composite lengths: one request's length is a composite, non-power-of-two factor of another's with an odd cofactor
        // (a plan found in the cache and reused as a sub-transform differs in its twiddle tables from the sub-plan built in place)
        {"K", {{FFT_C, 35}, {FFT_C, 105}, {FFT_C, 55}, {FFT_C, 165}, {FFT_C, 15}, {FFT_R, 210}}},
        {"F", {{HOLD_IR, 12}, {HOLD_IR, 20}, {IRFFT, 14}, {IRFFT, 12}, {HOLD_Z, 5}, {HOLD_Z, 9}, {USEBAD, 0}, {USE, 0}, {USE, 1}, {USEBAD, 1}}},
        {"D", {{FFT_C, 12}, {FFT_C, 60}, {FFT_C, 53}, {FFT_R, 30}, {HOLD_C, 60}, {HOLD_R, 30}, {HOLD_I, 12}, {HOLD_C, 53}, {USE, 0}, {USEBAD, 0}}},
    };

    for (auto& al : alphs) {
        const int NL = (int)al.letters.size();
        int d = NL == 6 ? (T ? 9 : 6) : (T ? 6 : 5);
        if (asan) d = NL == 6 ? (T ? 5 : 4) : 4;
        if (std::string(al.name) == "H") d = asan ? 2 : (T ? 4 : 3);
        if (std::string(al.name) == "I") d = asan ? 1 : (T ? 3 : 2);
        if (std::string(al.name) == "J") d = asan ? 3 : (T ? 6 : 4);
        if (std::string(al.name) == "K") d = asan ? 3 : (T ? 7 : 5);
        std::string chk = std::string("seq.") + al.name;
        if (!ctx.wants(chk.c_str())) continue;
        // references: each letter in a brand-new thread (twice: must be deterministic)
        std::vector<Out> fr;
        for (auto& q : al.letters) {
            fr.push_back(fresh(q));
            if (!same(fr.back(), fresh(q))) {
                fprintf(stderr, "fresh-thread reference not deterministic for %s\n", rname(q).c_str());
                return 4;
            }
        }
        // keys each letter creates as the first request of a fresh PROCESS (forked child; computed by the implementation itself)
        std::vector<Touch> touch((size_t)NL);
        {
            Touch holds;
            for (int li = 0; li < NL; ++li) {
                const Req q = al.letters[(size_t)li];
                if (q.kind == USE || q.kind == USEBAD) continue;
                fb::Result r = fb::run(
                    [&] {
                        std::string o;
                        std::thread t([&] {
                            std::vector<Held> h;
                            exec(q, h);
                            for (int k : verif::fft_cache_keys()) o += "c " + std::to_string(k) + "\n";
                            for (int k : verif::rfft_cache_keys()) o += "r " + std::to_string(k) + "\n";
                        });
                        t.join();
                        fb::emit(o);
                    },
                    60.0);
                std::istringstream in(r.out);
                char tag;
                int k;
                while (in >> tag >> k) (tag == 'c' ? touch[(size_t)li].c : touch[(size_t)li].r).insert(k);
                if (q.kind == HOLD_C || q.kind == HOLD_R || q.kind == HOLD_I || q.kind == HOLD_IR || q.kind == HOLD_Z) {
                    holds.c.insert(touch[(size_t)li].c.begin(), touch[(size_t)li].c.end());
                    holds.r.insert(touch[(size_t)li].r.begin(), touch[(size_t)li].r.end());
                }
            }
            for (int li = 0; li < NL; ++li)
                if (al.letters[(size_t)li].kind == USE || al.letters[(size_t)li].kind == USEBAD) touch[(size_t)li] = holds;
        }
        // every sequence of length 1..d; sequences are grouped by their first min(L,3) letters into blocks
        for (int L = 1; L <= d; ++L) {
            const int PL = std::min(L, asan ? 2 : 4);   // block prefix length
            long long nblocks = 1;
            for (int i = 0; i < PL; ++i) nblocks *= NL;
            long long per = 1;
            for (int i = PL; i < L; ++i) per *= NL;
            for (long long b = 0; b < nblocks; ++b) {
                if (!ctx.take(chk.c_str(), P().kv("K", K).kv("alphabet", al.name).kv("len", L).kv("block", b))) continue;
                auto body = [&](std::function<void(const char*, const std::string&, const std::string&, const P&)> fail, uint64_t& evals,
                                uint64_t& nontriv) {
                    std::vector<int> idx((size_t)L);
                    for (long long r = 0; r < per; ++r) {
                        long long v = b;
                        for (int i = PL - 1; i >= 0; --i) {
                            idx[(size_t)i] = (int)(v % NL);
                            v /= NL;
                        }
                        v = r;
                        for (int i = L - 1; i >= PL; --i) {
                            idx[(size_t)i] = (int)(v % NL);
                            v /= NL;
                        }
                        std::vector<Req> seq;
                        for (int i : idx) seq.push_back(al.letters[(size_t)i]);
                        if (asan) fb::shm()->prog[0] = r;
                        SeqResult sr = run_seq(seq, fr, idx, K, false, &touch);
                        ++evals;
                        if (L >= 2) ++nontriv;
                        uint64_t h = mix(fnv(al.name), (uint64_t)K);
                        for (int k : sr.Ac) h = mix(h, (uint64_t)k);
                        h = mix(h, 0xabcdef);
                        for (int k : sr.Ar) h = mix(h, (uint64_t)k);
                        if (!asan) {
                            ctx.state(h);
                            ++ctx.transitions;
                            ++ctx.traces;
                        }
                        if (!sr.err.empty()) {
                            std::string s;
                            for (auto& q : seq) s += rname(q) + " ";
                            fail(sr.site.c_str(), "sequence [" + s + "]: " + sr.err, "result equal to a fresh thread's; LRU discipline on both caches",
                                 P().kv("seq", s).kv("kind", sr.site));
                        }
                    }
                };
                if (!asan) {
                    uint64_t ev = 0, nt = 0;
                    body([&](const char* site, const std::string& o, const std::string& e, const P& d2) { ctx.fail(site, o, e, d2); }, ev, nt);
                    ctx.evaluations += ev ? ev - 1 : 0;
                    ctx.checks[chk].evals += ev ? ev - 1 : 0;
                    for (uint64_t i = 0; i < nt; ++i) ctx.nontrivial_key(mix(ctx.cur_hash, i + 1));
                } else {
                    forked(ctx, "asan", 120.0, [&](ChildCtx& c) {
                        body([&](const char* site, const std::string& o, const std::string& e, const P& d2) { c.fail(site, o, e, d2); }, c.evals,
                             c.nontriv);
                    });
                }
            }
        }
    }

    // ---- per-thread retention: what other threads request never changes the calling thread's caches
    if (ctx.wants("thread.isolation") && !asan) {
        std::vector<Req> U;
        for (int a = 0; a < 3; ++a)
            for (auto& q : alphs[(size_t)a].letters) U.push_back(q);
        for (size_t qa = 0; qa < U.size(); ++qa) {
            if (!ctx.take("thread.isolation", P().kv("K", K).kv("request", rname(U[qa])))) continue;
            std::string err;
            Out ref = fresh(U[qa]);
            std::thread ta([&] {
                std::vector<Held> h;
                Out o1 = exec(U[qa], h);
                std::vector<int> c1 = verif::fft_cache_keys(), r1 = verif::rfft_cache_keys();
                std::thread tb([&] {
                    std::vector<Held> hb;
                    for (auto& q : U) exec(q, hb);
                });
                tb.join();
                std::vector<int> c2 = verif::fft_cache_keys(), r2 = verif::rfft_cache_keys();
                if (c1 != c2 || r1 != r2)
                    err = fmt("after another thread made %zu requests the calling thread's caches changed: complex %s -> %s, real %s -> %s", U.size(), show(c1).c_str(),
                              show(c2).c_str(), show(r1).c_str(), show(r2).c_str());
                Out o2 = exec(U[qa], h);
                if (err.empty() && (!same(o1, ref) || !same(o2, ref))) err = "result differs from the fresh-thread result after another thread used the library";
                std::vector<int> c3 = verif::fft_cache_keys(), r3 = verif::rfft_cache_keys();
                if (err.empty() && (c3 != c1 || r3 != r1)) err = "repeating the request (a cache hit) changed the key lists: " + show(c1) + " -> " + show(c3);
            });
            ta.join();
            ctx.nontrivial();
            ++ctx.traces;
            ctx.transitions += U.size() + 2;
            if (!err.empty()) ctx.fail("isolation", rname(U[qa]) + ": " + err, "each thread retains its own most recently used plans", P().kv("kind", "isolation"));
        }
    }

    // ---- one long deterministic sequence: 10^4 (quick 2000) requests over 40 lengths with held plans interleaved
    if (ctx.wants("seq.long") && !asan) {
        std::vector<int> lens;
        for (int n : {3, 5, 6, 7, 9, 10, 11, 12, 13, 15, 16, 17, 18, 20, 21, 24, 25, 27, 30, 32, 33, 35, 36, 40, 41, 43, 45, 48, 49, 53, 60, 63, 64, 66,
                      70, 77, 81, 96, 100, 128})
            lens.push_back(n);
        for (int variant = 0; variant < (T ? 4 : 2); ++variant) {
            if (!ctx.take("seq.long", P().kv("K", K).kv("variant", variant))) continue;
            const int N = T ? 10000 : 2000;
            std::vector<Req> seq;
            for (int i = 0; i < N; ++i) {
                uint64_t z = (uint64_t)(lcg_val(900 + (uint64_t)variant, (uint64_t)i) * 0.5 * 4294967296.0 + 2147483648.0);
                int n = lens[(size_t)(z % lens.size())];
                int kind = (int)((z >> 8) % 16);
                Req q;
                if (kind < 5) q = {FFT_C, n};
                else if (kind < 9) q = {FFT_R, n};
                else if (kind < 11) q = {IFFT, n};
                else if (kind < 12) q = {IRFFT, n % 2 ? n + 1 : n};
                else if (kind < 13) q = {(z >> 16) % 2 ? HOLD_C : HOLD_R, n};
                else q = {USE, (int)((z >> 20) % 64)};
                seq.push_back(q);
            }
            // fresh references per distinct letter
            std::map<std::string, int> pos;
            std::vector<Out> fr;
            std::vector<int> idx;
            for (auto& q : seq) {
                std::string k = rname(q);
                if (q.kind == USE) {
                    idx.push_back(0);
                    continue;
                }
                auto it = pos.find(k);
                if (it == pos.end()) {
                    it = pos.emplace(k, (int)fr.size()).first;
                    fr.push_back(fresh(q));
                }
                idx.push_back(it->second);
            }
            SeqResult sr = run_seq(seq, fr, idx, K, true);
            ctx.transitions += (uint64_t)N;
            ++ctx.traces;
            ctx.evaluations += (uint64_t)N - 1;
            ctx.checks["seq.long"].evals += (uint64_t)N - 1;
            ctx.nontrivial();
            if (!sr.err.empty()) ctx.fail(sr.site.c_str(), sr.err, "every step: result equal to a fresh thread's; LRU discipline", P().kv("kind", sr.site));
        }
    }
    return ctx.finish();
}
