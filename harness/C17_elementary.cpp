// C17 - elementary and reduction functions return their mathematical values.
// Engine E1: every function / overload named in the statement is evaluated on a product of value classes
// (magnitudes 1e-100..1e100 x signs, 0, -0, axes and diagonals of the complex plane, every integer and
// half-integer exponent in [-8,8]) and on every array length 1..32, 100, 1000; shape functions on every shape
// tuple of a box.  Oracle: long double libm (64-bit mantissa), principal values with atan2 conventions.
// Tolerance: 8 rounding units of the result's scale, multiplied by the condition number of the evaluation
// where the exponent / argument itself has to be rounded (stated at each use).
#include "vf_fork.hpp"

#include <stdexcept>

using namespace vf;
namespace d = dsplib;
using d::arr_cmplx;
using d::arr_real;
using d::cmplx_t;

static const double CTOL = 8.0;         // allowed rounding units
static const double DFLOOR = 1e-305;    // results below this are compared absolutely (gradual underflow is not held against the library)

static bool g_thorough = false;
// array lengths: every 1..32, 100, 1000 (thorough: every 1..1024, 4096, 10000) and the big sizes 70000, 200000 (beyond 65536)
static const std::vector<int>& lengths() {
    static std::vector<int> v;
    if (v.empty()) {
        for (int i = 1; i <= (g_thorough ? 1024 : 32); ++i) v.push_back(i);
        if (!g_thorough) v.push_back(100);
        v.push_back(1000);
        if (g_thorough) {
            v.push_back(4096);
            v.push_back(10000);
        }
        v.push_back(70000);
        v.push_back(200000);
    }
    return v;
}

// error of a real result in units of eps*|ref|*cond
static double units_r(double got, ld ref, double cond = 1) {
    if (std::isnan(got)) return INFINITY;
    if (std::isinf(got)) return INFINITY;   // references are always finite (out-of-domain arguments are not generated)
    const ld scale = fabsl(ref) * cond * EPS + DFLOOR;
    return (double)(fabsl((ld)got - ref) / scale);
}
static double units_c(cmplx_t got, cld ref, double cond = 1) {
    if (std::isnan(got.re) || std::isnan(got.im) || std::isinf(got.re) || std::isinf(got.im)) return INFINITY;
    const ld scale = std::abs(ref) * cond * EPS + DFLOOR;
    return (double)(std::abs(cld(got.re, got.im) - ref) / scale);
}
static std::string cs(cmplx_t z) { return fmt("%.17g%+.17gi", z.re, z.im); }
static std::string cs(cld z) { return fmt("%.20Lg%+.20Lgi", z.real(), z.imag()); }

// How the storage of an operand was obtained.  A function that reads one element past the logical end sees allocator
// metadata behind an exact-fit array (usually harmless values) but STALE DATA behind an array whose vector has spare
// capacity: arr(std::move(vector)) adopts a vector that was shrunk, mask selection x[mask] reserves the full length.
enum Storage { EXACT = 0, SPARE = 1, MASKED = 2 };
static const char* STN[3] = {"exact-fit", "spare-capacity-stale", "mask-selected"};
static bool g_asan = false;   // the ASan pass uses exact-fit storage only: an over-read must leave the heap block to be reported
static arr_real build_r(const std::vector<double>& v, int st) {
    const size_t n = v.size();
    if (st == SPARE) {
        std::vector<double> w(n + 8, 1e6);   // eight stale values behind the logical end
        w.resize(n);
        std::copy(v.begin(), v.end(), w.begin());
        return arr_real(std::move(w));
    }
    if (st == MASKED) {
        arr_real big((int)(2 * n + 5));
        std::vector<bool> mask(2 * n + 5, false);
        for (size_t i = 0; i < 2 * n + 5; ++i) big[(int)i] = -1e6;
        for (size_t i = 0; i < n; ++i) {
            big[(int)(2 * i + 1)] = v[i];
            mask[2 * i + 1] = true;
        }
        return big[mask];
    }
    arr_real a((int)n);
    for (size_t i = 0; i < n; ++i) a[(int)i] = v[i];
    return a;
}
static arr_cmplx build_c(const std::vector<cmplx_t>& v, int st) {
    const size_t n = v.size();
    if (st == SPARE) {
        std::vector<cmplx_t> w(n + 8, cmplx_t(1e6, -1e6));
        w.resize(n);
        std::copy(v.begin(), v.end(), w.begin());
        return arr_cmplx(std::move(w));
    }
    if (st == MASKED) {
        arr_cmplx big((int)(2 * n + 5));
        std::vector<bool> mask(2 * n + 5, false);
        for (size_t i = 0; i < 2 * n + 5; ++i) big[(int)i] = cmplx_t(-1e6, 1e6);
        for (size_t i = 0; i < n; ++i) {
            big[(int)(2 * i + 1)] = v[i];
            mask[2 * i + 1] = true;
        }
        return big[mask];
    }
    arr_cmplx a((int)n);
    for (size_t i = 0; i < n; ++i) a[(int)i] = v[i];
    return a;
}
// element-wise checks rotate through the three kinds of storage with the array length
static arr_real mkr(const std::vector<double>& v) { return build_r(v, g_asan ? EXACT : (int)(v.size() % 3)); }
static arr_cmplx mkc(const std::vector<cmplx_t>& v) { return build_c(v, g_asan ? EXACT : (int)(v.size() % 3)); }
template<class T>
static std::vector<T> cyc(const std::vector<T>& v, int L) {   // length-L array cycling through v, start depends on L (element i is tagged by its value)
    std::vector<T> o((size_t)L);
    const size_t off = (size_t)(7 * L) % v.size();
    for (int i = 0; i < L; ++i) o[(size_t)i] = v[(off + (size_t)i) % v.size()];
    return o;
}

// ------------------------------------------------------------------------------------------- value grids
static const double MAGS[11] = {1e-100, 1e-50, 1e-10, 0.1, 0.5, 1, 2, 10, 1e10, 1e50, 1e100};
// thorough: every 2 decades 1e-100..1e100, a cluster around 1, the libm regime changes (20, 355, 400, 709, 1e3) and neighbours of 1
static std::vector<double> mags_thorough() {
    std::vector<double> m;
    for (int e = -100; e <= 100; e += 2) m.push_back(std::pow(10.0, e));
    for (double v : {0.01, 0.1, 0.3, 0.5, 0.75, 0.9, 0.9999999999999999, 1.0000000000000002, 1.1, 1.5, 2.0, 3.0, 7.0, 20.0, 100.0, 355.0, 400.0, 709.0, 1e3}) m.push_back(v);
    std::sort(m.begin(), m.end());
    m.erase(std::unique(m.begin(), m.end()), m.end());
    return m;
}
static std::vector<double> mags() { return g_thorough ? mags_thorough() : std::vector<double>(MAGS, MAGS + 11); }
static std::vector<double> real_grid() {
    std::vector<double> g = {0.0, -0.0};
    for (double m : mags()) {
        g.push_back(m);
        g.push_back(-m);
    }
    return g;
}
static std::vector<double> plus(std::vector<double> g, std::initializer_list<double> extra, bool both_signs = true) {
    for (double e : extra) {
        g.push_back(e);
        if (both_signs) g.push_back(-e);
    }
    return g;
}
static std::vector<double> only(const std::vector<double>& g, const std::function<bool(double)>& pred) {
    std::vector<double> o;
    for (double x : g)
        if (pred(x)) o.push_back(x);
    return o;
}
static std::vector<cmplx_t> cmplx_grid() {   // RG x RG: axes, diagonals, +-1, +-i, signed zeros, all magnitude products
    std::vector<cmplx_t> g;
    const auto r = real_grid();
    for (double a : r)
        for (double b : r) g.push_back(cmplx_t(a, b));
    // generic arguments: every multiple of pi/24 at three radii; points next to the branch cut and next to the imaginary axis
    // (thorough: every multiple of pi/96 at seven radii)
    const std::vector<double> radii = g_thorough ? std::vector<double>{1e-40, 1e-3, 0.3, 1.0, 7.0, 1e4, 1e30} : std::vector<double>{0.3, 1.0, 7.0};
    const int NA = g_thorough ? 192 : 48;
    for (double rad : radii)
        for (int k = 0; k < NA; ++k) g.push_back(cmplx_t(rad * std::cos(k * 2 * 3.141592653589793 / NA), rad * std::sin(k * 2 * 3.141592653589793 / NA)));
    for (double t : {1e-300, 5e-324, 1e-17})
        for (double sg : {1.0, -1.0}) {
            g.push_back(cmplx_t(-1, sg * t));
            g.push_back(cmplx_t(-t, sg));
            g.push_back(cmplx_t(t, sg));
        }
    return g;
}
static std::vector<int> exps_int() {
    std::vector<int> e;
    for (int k = -8; k <= 8; ++k) e.push_back(k);
    return e;
}
static std::vector<double> exps_half() {   // every integer and half-integer in [-8, 8]; thorough: every eighth and +-1/3, +-pi/2, +-7.9
    std::vector<double> e;
    if (!g_thorough) {
        for (int k = -16; k <= 16; ++k) e.push_back(k * 0.5);
    } else {
        for (int k = -64; k <= 64; ++k) e.push_back(k * 0.125);
        for (double v : {1.0 / 3, 1.5707963267948966, 7.9, 0.1}) {
            e.push_back(v);
            e.push_back(-v);
        }
    }
    return e;
}

// ------------------------------------------------------------------------------------------- unary real -> real
struct RFun {
    std::string name;
    std::vector<double> xs;
    std::function<double(double)> sc;                 // scalar overload (may be empty)
    std::function<arr_real(const arr_real&)> ar;      // array overload (may be empty)
    std::function<ld(ld)> ref;
    std::function<double(double)> cond;               // condition multiplier (may be empty = 1)
    std::function<bool(double, double)> alt;          // alternative acceptance (x, got), may be empty
};

static void check_r(Ctx& ctx, const RFun& f, const char* site, double x, double got, bool& failed, int idx = -1) {
    const ld ref = f.ref((ld)x);
    const double c = f.cond ? f.cond(x) : 1.0;
    const double u = units_r(got, ref, c);
    if (f.alt && f.alt(x, got)) return;
    ctx.worst(f.name + " err/(eps*cond*|ref|)", std::isfinite(u) ? u : 1e300);
    if (!(u <= CTOL) && !failed) {
        failed = true;
        ctx.fail(site, fmt("%s(%.17g)=%.17g", f.name.c_str(), x, got), fmt("%.20Lg (cond %.3g)", ref, c), idx >= 0 ? P().kv("i", idx).kv("x", x) : P());
    }
}

static void run_rfun(Ctx& ctx, const RFun& f) {
    const std::string cs_ = "elem." + f.name, ca = "arr." + f.name;
    if (f.sc)
        for (double x : f.xs) {
            if (!ctx.take(cs_.c_str(), P().kv("x", x))) continue;
            if (x != 0 && std::fabs(x) != 1) ctx.nontrivial();
            bool failed = false;
            check_r(ctx, f, f.name.c_str(), x, f.sc(x), failed);
        }
    if (f.ar) {
        std::vector<int> ls = lengths();
        ls.push_back((int)f.xs.size());
        for (int L : ls) {
            if (!ctx.take(ca.c_str(), P().kv("len", L))) continue;
            if (L >= 2) ctx.nontrivial();
            const auto v = cyc(f.xs, L);
            const arr_real y = f.ar(mkr(v));
            if (y.size() != L) {
                ctx.fail(f.name.c_str(), fmt("size %d", y.size()), fmt("%d", L));
                continue;
            }
            bool failed = false;
            for (int i = 0; i < L; ++i) check_r(ctx, f, f.name.c_str(), v[(size_t)i], y[i], failed, i);
        }
    }
}

static void run_real_unary(Ctx& ctx) {
    const auto RG = real_grid();
    const auto POS = only(RG, [](double x) { return x > 0; });
    std::vector<RFun> fs;
    fs.push_back({"abs.real", RG, [](double x) { return d::abs(x); }, [](const arr_real& a) { return d::abs(a); }, [](ld x) { return fabsl(x); }, nullptr, nullptr});
    fs.push_back({"abs2.real", RG, [](double x) { return d::abs2(x); }, [](const arr_real& a) { return d::abs2(a); }, [](ld x) { return x * x; }, nullptr, nullptr});
    // exp: arguments whose result is finite (x <= 709); large negative arguments give 0
    fs.push_back({"exp.real", plus(only(RG, [](double x) { return x <= 700; }), {3, 20, 100, 700}), [](double x) { return d::exp(x); },
                  [](const arr_real& a) { return d::exp(a); }, [](ld x) { return expl(x); }, nullptr, nullptr});
    const auto LG = plus(POS, {0.999, 1.001, 2.718281828, 3, 7, 1e-300, 1e300}, false);
    fs.push_back({"log", LG, [](double x) { return d::log(x); }, [](const arr_real& a) { return d::log(a); }, [](ld x) { return logl(x); }, nullptr, nullptr});
    fs.push_back({"log2", LG, [](double x) { return d::log2(x); }, [](const arr_real& a) { return d::log2(a); }, [](ld x) { return log2l(x); }, nullptr, nullptr});
    fs.push_back({"log10", LG, [](double x) { return d::log10(x); }, [](const arr_real& a) { return d::log10(a); }, [](ld x) { return log10l(x); }, nullptr, nullptr});
    fs.push_back({"tanh.real", plus(RG, {0.3, 3, 20}), nullptr, [](const arr_real& a) { return d::tanh(a); }, [](ld x) { return tanhl(x); }, nullptr, nullptr});
    // round: nearest integer; at exact ties either neighbour is accepted (the statement does not fix the tie rule)
    fs.push_back({"round.real", plus(RG, {0.5, 1.5, 2.5, 0.49999999999999994, 2.4999, 3.7, 4503599627370497.0, 1e15 + 0.5}),
                  [](double x) { return d::round(x); }, [](const arr_real& a) { return d::round(a); }, [](ld x) { return roundl(x); }, nullptr,
                  [](double x, double got) { return std::fabs(x - std::floor(x)) == 0.5 && (got == std::floor(x) || got == std::ceil(x)); }});
    fs.push_back({"pow2db", LG, [](double x) { return d::pow2db(x); }, [](const arr_real& a) { return d::pow2db(a); }, [](ld x) { return 10 * log10l(x); }, nullptr, nullptr});
    fs.push_back({"mag2db", LG, [](double x) { return d::mag2db(x); }, [](const arr_real& a) { return d::mag2db(a); }, [](ld x) { return 20 * log10l(x); }, nullptr, nullptr});
    // db2pow / db2mag: the exponent v/10 is rounded before the power is taken -> relative condition |v/10| ln 10
    const std::vector<double> DB = plus({0.0, -0.0}, {0.1, 1, 3, 10, 20, 37.5, 100, 1000, 3000});
    fs.push_back({"db2pow", DB, [](double x) { return d::db2pow(x); }, [](const arr_real& a) { return d::db2pow(a); }, [](ld x) { return powl(10.0L, x / 10); },
                  [](double v) { return 1 + std::fabs(v / 10) * 2.302585092994046; }, nullptr});
    fs.push_back({"db2mag", DB, [](double x) { return d::db2mag(x); }, [](const arr_real& a) { return d::db2mag(a); }, [](ld x) { return powl(10.0L, x / 20); },
                  [](double v) { return 1 + std::fabs(v / 20) * 2.302585092994046; }, nullptr});
    fs.push_back({"deg2rad", RG, [](double x) { return d::deg2rad(x); }, [](const arr_real& a) { return d::deg2rad(a); }, [](ld x) { return x / 180 * PI_L; }, nullptr, nullptr});
    fs.push_back({"rad2deg", RG, [](double x) { return d::rad2deg(x); }, [](const arr_real& a) { return d::rad2deg(a); }, [](ld x) { return x / PI_L * 180; }, nullptr, nullptr});
    for (const RFun& f : fs) run_rfun(ctx, f);

    // inverse pairs round-trip: pow2db(db2pow(v)) = v (absolute error eps*(|v| + 10/ln10 * cond)), db2pow(pow2db(p)) = p, degrees
    for (double v : DB) {
        if (!ctx.take("roundtrip.db", P().kv("v", v))) continue;
        if (v != 0) ctx.nontrivial();
        const double a = d::pow2db(d::db2pow(v)), b = d::mag2db(d::db2mag(v));
        const double ta = CTOL * EPS * (std::fabs(v) + 4.35 * (1 + std::fabs(v / 10) * 2.31)), tb = CTOL * EPS * (std::fabs(v) + 8.7 * (1 + std::fabs(v / 20) * 2.31));
        ctx.worst("roundtrip pow2db(db2pow) err/tol", std::fabs(a - v) / ta);
        ctx.worst("roundtrip mag2db(db2mag) err/tol", std::fabs(b - v) / tb);
        if (!(std::fabs(a - v) <= ta)) ctx.fail("pow2db/db2pow", fmt("pow2db(db2pow(%.17g))=%.17g", v, a), fmt("%.17g", v));
        if (!(std::fabs(b - v) <= tb)) ctx.fail("mag2db/db2mag", fmt("mag2db(db2mag(%.17g))=%.17g", v, b), fmt("%.17g", v));
    }
    for (double p : LG) {
        if (!ctx.take("roundtrip.pow", P().kv("p", p))) continue;
        ctx.nontrivial();
        const double a = d::db2pow(d::pow2db(p)), b = d::db2mag(d::mag2db(p));
        const double cond = 2 + std::fabs(std::log(p));   // |v| ln10/10 with v = 10 log10 p
        ctx.worst("roundtrip db2pow(pow2db) err/(eps*cond*p)", std::fabs(a - p) / (EPS * cond * p));
        ctx.worst("roundtrip db2mag(mag2db) err/(eps*cond*p)", std::fabs(b - p) / (EPS * cond * p));
        if (!(std::fabs(a - p) <= CTOL * EPS * cond * p)) ctx.fail("db2pow/pow2db", fmt("db2pow(pow2db(%.17g))=%.17g", p, a), fmt("%.17g", p));
        if (!(std::fabs(b - p) <= CTOL * EPS * cond * p)) ctx.fail("db2mag/mag2db", fmt("db2mag(mag2db(%.17g))=%.17g", p, b), fmt("%.17g", p));
    }
    for (double x : RG) {
        if (!ctx.take("roundtrip.deg", P().kv("x", x))) continue;
        if (x != 0) ctx.nontrivial();
        const double a = d::deg2rad(d::rad2deg(x)), b = d::rad2deg(d::deg2rad(x));
        ctx.worst("roundtrip deg/rad err/(eps*|x|)", x != 0 ? std::max(std::fabs(a - x), std::fabs(b - x)) / (EPS * std::fabs(x)) : 0.0);
        if (!(std::fabs(a - x) <= CTOL * EPS * std::fabs(x))) ctx.fail("deg2rad/rad2deg", fmt("deg2rad(rad2deg(%.17g))=%.17g", x, a), fmt("%.17g", x));
        if (!(std::fabs(b - x) <= CTOL * EPS * std::fabs(x))) ctx.fail("rad2deg/deg2rad", fmt("rad2deg(deg2rad(%.17g))=%.17g", x, b), fmt("%.17g", x));
    }
}

// ------------------------------------------------------------------------------------------- complex arguments
// classes of the points at which the principal argument needs care
static const char* branch_class(cmplx_t z) {
    if (z.re == 0 && z.im == 0) return "zero";
    if (z.re < 0 && z.im == 0) return "negreal";
    if (z.re == 0 && std::signbit(z.re)) return "negzero_re";
    return nullptr;
}

// principal argument with the atan2 conventions for signed zeros (the statement names signed zeros): angle(-a, -0) = -pi,
// angle(-a, +0) = +pi, angle(+a, -0) = -0, angle(-0, +0) = +pi, angle(-0, -0) = -pi, angle(+0, -0) = -0, angle(+0, +0) = +0
static std::vector<ld> angle_refs(cmplx_t z) { return {atan2l((ld)z.im, (ld)z.re)}; }

// returns true when ok; otherwise fills detail flags
static bool angle_ok(Ctx& ctx, cmplx_t z, double got, bool regular, P& det, std::string& exp) {
    const auto refs = angle_refs(z);
    double best = INFINITY;
    for (ld r : refs) {
        // scale: pi for the absolute accuracy of the quadrant correction is NOT granted; the statement asks for the result's scale
        const double u = (r == 0) ? ((got == 0 && std::signbit(got) == std::signbit((double)r)) ? 0.0 : INFINITY) : units_r(got, r);
        best = std::min(best, u);
    }
    if (regular) ctx.worst("angle err/(eps*|ref|) regular points", std::isfinite(best) ? best : 1e300);
    if (best <= CTOL) return true;
    const char* cls = branch_class(z);
    bool conj = false;
    for (ld r : refs) conj |= (r != 0 && units_r(got, -r) <= CTOL);
    det = P().kv("cls", cls ? cls : "regular").kv("nan", std::isnan(got)).kv("conj", conj).kv("re", z.re).kv("im", z.im);
    exp = fmt("%.20Lg", refs[0]);
    return false;
}

static void run_angle(Ctx& ctx) {
    const auto CG = cmplx_grid();
    std::vector<cmplx_t> reg, br;
    for (cmplx_t z : CG) (branch_class(z) ? br : reg).push_back(z);
    for (int pass = 0; pass < 2; ++pass) {
        const auto& pts = pass == 0 ? reg : br;
        const char* chk = pass == 0 ? "elem.angle" : "elem.angle.branch";
        for (cmplx_t z : pts) {
            if (!ctx.take(chk, P().kv("re", z.re).kv("im", z.im))) continue;
            ctx.nontrivial();
            ctx.note(std::string("angle class ") + (branch_class(z) ? branch_class(z) : "regular"));
            P det;
            std::string exp;
            const double got = d::angle(z);
            if (!angle_ok(ctx, z, got, pass == 0, det, exp)) ctx.fail("angle", fmt("angle(%s)=%.17g", cs(z).c_str(), got), exp, det);
        }
        // array overload
        std::vector<int> ls = pass == 0 ? lengths() : std::vector<int>();
        ls.push_back((int)pts.size());
        const char* cha = pass == 0 ? "arr.angle" : "arr.angle.branch";
        for (int L : ls) {
            if (!ctx.take(cha, P().kv("len", L))) continue;
            ctx.nontrivial();
            const auto v = cyc(pts, L);
            const arr_real y = d::angle(mkc(v));
            if (y.size() != L) {
                ctx.fail("angle", fmt("size %d", y.size()), fmt("%d", L));
                continue;
            }
            std::set<std::string> seen;   // first failure of each class
            for (int i = 0; i < L; ++i) {
                P det;
                std::string exp;
                if (!angle_ok(ctx, v[(size_t)i], y[i], pass == 0, det, exp)) {
                    const std::string key = det.str().substr(0, det.str().find("\"re\""));
                    if (seen.insert(key).second) ctx.fail("angle", fmt("angle(%s)=%.17g at [%d]", cs(v[(size_t)i]).c_str(), y[i], i), exp, det.kv("i", i));
                }
            }
        }
    }
}

// ---- complex -> real / complex -> complex unary functions without branch cuts
struct CFun {
    std::string name;
    std::vector<cmplx_t> xs;
    bool real_result;
    std::function<cmplx_t(cmplx_t)> sc;
    std::function<arr_cmplx(const arr_cmplx&)> arc;
    std::function<arr_real(const arr_cmplx&)> arr;
    std::function<cld(cld)> ref;
    bool exact;   // bit-exact comparison (real/imag/conj)
};

static void check_c(Ctx& ctx, const CFun& f, cmplx_t x, cmplx_t got, bool& failed, int idx = -1) {
    const cld ref = f.ref(cld(x.re, x.im));
    bool ok;
    if (f.exact) {
        ok = biteq(got.re, (double)ref.real()) && biteq(got.im, (double)ref.imag());
    } else {
        const double u = units_c(got, ref);
        ctx.worst(f.name + " err/(eps*|ref|)", std::isfinite(u) ? u : 1e300);
        ok = u <= CTOL;
    }
    if (!ok && !failed) {
        failed = true;
        ctx.fail(f.name.c_str(), fmt("%s(%s)=%s", f.name.c_str(), cs(x).c_str(), cs(got).c_str()), cs(ref), idx >= 0 ? P().kv("i", idx).kv("re", x.re).kv("im", x.im) : P());
    }
}

static void run_cfun(Ctx& ctx, const CFun& f) {
    const std::string c1 = "elem." + f.name, c2 = "arr." + f.name;
    if (f.sc)
        for (cmplx_t x : f.xs) {
            if (!ctx.take(c1.c_str(), P().kv("re", x.re).kv("im", x.im))) continue;
            if (x.re != 0 && x.im != 0) ctx.nontrivial();
            bool failed = false;
            check_c(ctx, f, x, f.sc(x), failed);
        }
    if (f.arc || f.arr) {
        std::vector<int> ls = lengths();
        ls.push_back((int)f.xs.size());
        for (int L : ls) {
            if (!ctx.take(c2.c_str(), P().kv("len", L))) continue;
            if (L >= 2) ctx.nontrivial();
            const auto v = cyc(f.xs, L);
            bool failed = false;
            if (f.arc) {
                const arr_cmplx y = f.arc(mkc(v));
                if (y.size() != L) {
                    ctx.fail(f.name.c_str(), fmt("size %d", y.size()), fmt("%d", L));
                    continue;
                }
                for (int i = 0; i < L; ++i) check_c(ctx, f, v[(size_t)i], y[i], failed, i);
            } else {
                const arr_real y = f.arr(mkc(v));
                if (y.size() != L) {
                    ctx.fail(f.name.c_str(), fmt("size %d", y.size()), fmt("%d", L));
                    continue;
                }
                for (int i = 0; i < L; ++i) check_c(ctx, f, v[(size_t)i], cmplx_t(y[i], f.exact ? 0.0 : 0.0), failed, i);
            }
        }
    }
}

static void run_complex_unary(Ctx& ctx) {
    const auto CG = cmplx_grid();
    std::vector<CFun> fs;
    auto R = [](ld v) { return cld(v, 0); };
    fs.push_back({"abs.cmplx", CG, true, [](cmplx_t z) { return cmplx_t(d::abs(z), 0); }, nullptr, [](const arr_cmplx& a) { return d::abs(a); },
                  [R](cld z) { return R(hypotl(z.real(), z.imag())); }, false});
    fs.push_back({"abs2.cmplx", CG, true, [](cmplx_t z) { return cmplx_t(d::abs2(z), 0); }, nullptr, [](const arr_cmplx& a) { return d::abs2(a); },
                  [R](cld z) { return R(z.real() * z.real() + z.imag() * z.imag()); }, false});
    fs.push_back({"real", CG, true, [](cmplx_t z) { return cmplx_t(d::real(z), 0); }, nullptr, [](const arr_cmplx& a) { return d::real(a); }, [R](cld z) { return R(z.real()); }, true});
    fs.push_back({"imag", CG, true, [](cmplx_t z) { return cmplx_t(d::imag(z), 0); }, nullptr, [](const arr_cmplx& a) { return d::imag(a); }, [R](cld z) { return R(z.imag()); }, true});
    fs.push_back({"conj", CG, false, [](cmplx_t z) { return d::conj(z); }, [](const arr_cmplx& a) { return d::conj(a); }, nullptr, [](cld z) { return std::conj(z); }, true});
    // round: ties of the grid values do not occur except +-0.5 (excluded: tie rule not fixed by the statement)
    std::vector<cmplx_t> RND;
    for (cmplx_t z : CG)
        if (std::fabs(z.re) != 0.5 && std::fabs(z.im) != 0.5) RND.push_back(z);
    for (double a : {0.3, 1.7, -2.6, 1e15 + 0.5 + 1})
        for (double b : {-0.3, 2.2, 7.9}) RND.push_back(cmplx_t(a, b));
    fs.push_back({"round.cmplx", RND, false, [](cmplx_t z) { return d::round(z); }, [](const arr_cmplx& a) { return d::round(a); }, nullptr,
                  [](cld z) { return cld(roundl(z.real()), roundl(z.imag())); }, false});
    // exp: finite results only (re <= 700); exp(re) e^{i im}
    std::vector<cmplx_t> EX;
    for (cmplx_t z : CG)
        if (z.re <= 700) EX.push_back(z);
    for (double a : {-700.0, -20.0, -3.0, 3.0, 20.0, 700.0})
        for (double b : {0.0, 0.3, -2.0, 3.141592653589793, 100.0, -1e10}) EX.push_back(cmplx_t(a, b));
    fs.push_back({"exp.cmplx", EX, false, [](cmplx_t z) { return d::exp(z); }, [](const arr_cmplx& a) { return d::exp(a); }, nullptr,
                  [](cld z) { return expl(z.real()) * cld(cosl(z.imag()), sinl(z.imag())); }, false});
    // tanh (array overload only)
    fs.push_back({"tanh.cmplx", CG, false, nullptr, [](const arr_cmplx& a) { return d::tanh(a); }, nullptr, [](cld z) { return std::tanh(z); }, false});
    for (const CFun& f : fs) run_cfun(ctx, f);

    // expj: real -> complex
    {
        const auto xs = plus(real_grid(), {0.3, 1.5707963267948966, 3.141592653589793, 6.283185307179586, 100, 12345.678});
        for (double x : xs) {
            if (!ctx.take("elem.expj", P().kv("x", x))) continue;
            if (x != 0) ctx.nontrivial();
            const cmplx_t g = d::expj(x);
            const double u = units_c(g, cld(cosl((ld)x), sinl((ld)x)));
            ctx.worst("expj err/eps", std::isfinite(u) ? u : 1e300);
            if (!(u <= CTOL)) ctx.fail("expj", fmt("expj(%.17g)=%s", x, cs(g).c_str()), cs(cld(cosl((ld)x), sinl((ld)x))));
        }
        std::vector<int> ls = lengths();
        ls.push_back((int)xs.size());
        for (int L : ls) {
            if (!ctx.take("arr.expj", P().kv("len", L))) continue;
            if (L >= 2) ctx.nontrivial();
            const auto v = cyc(xs, L);
            const arr_cmplx y = d::expj(mkr(v));
            if (y.size() != L) {
                ctx.fail("expj", fmt("size %d", y.size()), fmt("%d", L));
                continue;
            }
            for (int i = 0; i < L; ++i) {
                const double u = units_c(y[i], cld(cosl((ld)v[(size_t)i]), sinl((ld)v[(size_t)i])));
                if (!(u <= CTOL)) {
                    ctx.fail("expj", fmt("expj(%.17g)=%s at [%d]", v[(size_t)i], cs(y[i]).c_str(), i), "cos + i sin", P().kv("i", i));
                    break;
                }
            }
        }
    }
    // complex(re, im) / real / imag round trip, complex(re)
    for (int L : lengths()) {
        if (!ctx.take("roundtrip.complex", P().kv("len", L))) continue;
        if (L >= 2) ctx.nontrivial();
        const auto v = cyc(CG, L);
        const arr_cmplx z = mkc(v);
        const arr_cmplx w = d::complex(d::real(z), d::imag(z));
        const arr_cmplx r = d::complex(d::real(z));
        if (!bitsame(w, z)) ctx.fail("complex", "complex(real(z), imag(z)) != z", "bit-identical", P().kv("what", "pair"));
        bool ok = r.size() == L;
        for (int i = 0; ok && i < L; ++i) ok = biteq(r[i].re, v[(size_t)i].re) && r[i].im == 0;
        if (!ok) ctx.fail("complex", "complex(re) != re + 0i", "re + 0i", P().kv("what", "single"));
    }
}

// ------------------------------------------------------------------------------------------- power
// real base: in-domain <=> x > 0, or x < 0 with integral p, or x == 0 with p > 0; results must be finite (|ref| <= 1e300)
static bool rpow_domain(double x, double p, ld& ref) {
    if (x == 0 && p <= 0) return false;
    if (x < 0 && p != std::floor(p)) return false;
    ref = powl((ld)x, (ld)p);
    return fabsl(ref) <= 1e300L;
}

// complex base: z^p = exp(p Log z) (principal with the atan2 conventions for signed zeros; 0^p = 0 for p > 0).  cond = 1 + |p| (1 + |arg z|): |z| and arg z carry one rounding each before being
// multiplied by p.
static bool cpow_domain(cmplx_t z, double p, std::vector<cld>& refs, double& cond) {
    refs.clear();
    if (z.re == 0 && z.im == 0) {
        if (p <= 0) return false;
        refs.push_back(cld(0, 0));
        cond = 1;
        return true;
    }
    const ld r = powl(hypotl((ld)z.re, (ld)z.im), (ld)p);
    if (!(r <= 1e300L)) return false;
    const ld th = atan2l((ld)z.im, (ld)z.re);
    refs.push_back(r * cis(th * (ld)p));   // th follows atan2: -pi on the lower edge of the cut (im = -0), +pi on the upper edge
    cond = 1 + std::fabs(p) * (1 + (double)fabsl(th));
    return true;
}

struct PowRes {
    bool ok;
    P det;
    std::string exp;
};
static PowRes cpow_check(Ctx& ctx, const char* fam, cmplx_t z, double p, cmplx_t got, const std::vector<cld>& refs, double cond) {
    double best = INFINITY;
    for (const cld& r : refs) best = std::min(best, units_c(got, r, cond));
    const char* cls = branch_class(z);
    if (!cls) ctx.worst(std::string(fam) + " err/(eps*cond*|ref|) regular points", std::isfinite(best) ? best : 1e300);
    PowRes res{best <= CTOL, P(), ""};
    if (!res.ok) {
        bool conj = false;
        for (const cld& r : refs) conj |= units_c(got, std::conj(r), cond) <= CTOL;
        res.det = P().kv("cls", cls ? cls : "regular").kv("nan", std::isnan(got.re) || std::isnan(got.im)).kv("conj", conj).kv("re", z.re).kv("im", z.im).kv("p", p);
        res.exp = cs(refs[0]) + fmt(" (cond %.3g)", cond);
    }
    return res;
}

static void run_power(Ctx& ctx) {
    const auto RG = real_grid();
    const auto CG = cmplx_grid();
    const auto EH = exps_half();
    const auto EI = exps_int();
    // ---- real base, scalar overloads
    for (double x : RG)
        for (double p : EH) {
            ld ref;
            if (!rpow_domain(x, p, ref)) continue;
            if (!ctx.take("elem.power.real", P().kv("x", x).kv("p", p))) continue;
            if (p != 0 && p != 1 && x != 0 && std::fabs(x) != 1) ctx.nontrivial();
            const double g = d::power(x, p), u = units_r(g, ref);
            ctx.worst("power(real,real) err/(eps*|ref|)", std::isfinite(u) ? u : 1e300);
            if (!(u <= CTOL)) ctx.fail("power", fmt("power(%.17g,%.17g)=%.17g", x, p, g), fmt("%.20Lg", ref));
            if (p == std::floor(p)) {
                const double gi = d::power(x, (int)p), ui = units_r(gi, ref);
                ctx.worst("power(real,int) err/(eps*|ref|)", std::isfinite(ui) ? ui : 1e300);
                ctx.note(fmt("power(real,int) n=%d", (int)p));
                if (!(ui <= CTOL)) ctx.fail("power", fmt("power(%.17g,int %d)=%.17g", x, (int)p, gi), fmt("%.20Lg", ref), P().kv("overload", "int"));
            }
        }
    // ---- real base, array overloads: x^arr, arr^arr, arr^scalar, arr^int over the list of all in-domain pairs
    {
        std::vector<std::pair<double, double>> pairs;
        for (double x : RG)
            for (double p : EH) {
                ld ref;
                if (rpow_domain(x, p, ref)) pairs.push_back({x, p});
            }
        std::vector<int> ls = lengths();
        ls.push_back((int)pairs.size());
        for (int L : ls) {
            if (!ctx.take("arr.power.real", P().kv("len", L))) continue;
            if (L >= 2) ctx.nontrivial();
            const auto v = cyc(pairs, L);
            std::vector<double> xs, ps;
            for (auto& q : v) {
                xs.push_back(q.first);
                ps.push_back(q.second);
            }
            const arr_real y = d::power(mkr(xs), mkr(ps));
            bool bad = y.size() != L;
            for (int i = 0; !bad && i < L; ++i) {
                const double u = units_r(y[i], powl((ld)xs[(size_t)i], (ld)ps[(size_t)i]));
                if (!(u <= CTOL)) {
                    bad = true;
                    ctx.fail("power", fmt("power(arr,arr)[%d]=%.17g for %.17g^%.17g", i, y[i], xs[(size_t)i], ps[(size_t)i]), "powl", P().kv("overload", "arr^arr").kv("i", i));
                }
            }
            if (y.size() != L) ctx.fail("power", fmt("size %d", y.size()), fmt("%d", L), P().kv("overload", "arr^arr"));
        }
        // scalar^array and array^scalar, array^int: group the pairs by fixed x / fixed p
        for (double x : RG) {
            if (!ctx.take("arr.power.real.scalar_base", P().kv("x", x))) continue;
            std::vector<double> ps;
            for (double p : EH) {
                ld ref;
                if (rpow_domain(x, p, ref)) ps.push_back(p);
            }
            if (ps.empty()) continue;
            ctx.nontrivial();
            const arr_real y = d::power(x, mkr(ps));
            if (y.size() != (int)ps.size()) {
                ctx.fail("power", fmt("size %d", y.size()), fmt("%zu", ps.size()), P().kv("overload", "scalar^arr"));
                continue;
            }
            for (int i = 0; i < y.size(); ++i)
                if (!(units_r(y[i], powl((ld)x, (ld)ps[(size_t)i])) <= CTOL)) {
                    ctx.fail("power", fmt("power(%.17g,arr)[%d]=%.17g p=%.17g", x, i, y[i], ps[(size_t)i]), "powl", P().kv("overload", "scalar^arr").kv("i", i));
                    break;
                }
        }
        for (double p : EH) {
            if (!ctx.take("arr.power.real.scalar_exp", P().kv("p", p))) continue;
            std::vector<double> xs;
            for (double x : RG) {
                ld ref;
                if (rpow_domain(x, p, ref)) xs.push_back(x);
            }
            if (xs.empty()) continue;
            ctx.nontrivial();
            for (int ov = 0; ov < 2; ++ov) {
                if (ov == 1 && p != std::floor(p)) break;
                const arr_real y = ov == 0 ? d::power(mkr(xs), p) : d::power(mkr(xs), (int)p);
                const char* on = ov == 0 ? "arr^scalar" : "arr^int";
                if (y.size() != (int)xs.size()) {
                    ctx.fail("power", fmt("size %d", y.size()), fmt("%zu", xs.size()), P().kv("overload", on));
                    continue;
                }
                for (int i = 0; i < y.size(); ++i)
                    if (!(units_r(y[i], powl((ld)xs[(size_t)i], (ld)p)) <= CTOL)) {
                        ctx.fail("power", fmt("power(arr,%s %.17g)[%d]=%.17g x=%.17g", on, p, i, y[i], xs[(size_t)i]), "powl", P().kv("overload", on).kv("i", i));
                        break;
                    }
            }
        }
    }
    // ---- complex base, scalar overloads; regular points and branch points (zero, negative real axis, re = -0) separately
    for (int pass = 0; pass < 2; ++pass) {
        const char* chk = pass == 0 ? "elem.power.cmplx" : "elem.power.cmplx.branch";
        for (cmplx_t z : CG) {
            if ((branch_class(z) != nullptr) != (pass == 1)) continue;
            for (double p : EH) {
                std::vector<cld> refs;
                double cond;
                if (!cpow_domain(z, p, refs, cond)) continue;
                if (!ctx.take(chk, P().kv("re", z.re).kv("im", z.im).kv("p", p))) continue;
                if (p != 0 && p != 1) ctx.nontrivial();
                if (pass == 1) ctx.note(std::string("power class ") + branch_class(z) + (p == std::floor(p) ? " integer p" : " fractional p"));
                const cmplx_t g = d::power(z, p);
                PowRes r = cpow_check(ctx, "power(cmplx,real)", z, p, g, refs, cond);
                if (!r.ok) ctx.fail("power", fmt("power(%s,%.17g)=%s", cs(z).c_str(), p, cs(g).c_str()), r.exp, r.det.kv("overload", "real"));
                if (p == std::floor(p)) {
                    const cmplx_t gi = d::power(z, (int)p);
                    PowRes ri = cpow_check(ctx, "power(cmplx,int)", z, p, gi, refs, cond);
                    if (!ri.ok) ctx.fail("power", fmt("power(%s,int %d)=%s", cs(z).c_str(), (int)p, cs(gi).c_str()), ri.exp, ri.det.kv("overload", "int"));
                }
            }
        }
    }
    // ---- complex base, array overloads
    for (int pass = 0; pass < 2; ++pass) {
        struct ZP {
            cmplx_t z;
            double p;
        };
        std::vector<ZP> pairs;
        for (cmplx_t z : CG) {
            if ((branch_class(z) != nullptr) != (pass == 1)) continue;
            for (double p : EH) {
                std::vector<cld> refs;
                double cond;
                if (cpow_domain(z, p, refs, cond)) pairs.push_back({z, p});
            }
        }
        auto report = [&](const char* on, const std::vector<cmplx_t>& zs, const std::vector<double>& ps, const arr_cmplx& y) {
            if (y.size() != (int)zs.size()) {
                ctx.fail("power", fmt("size %d", y.size()), fmt("%zu", zs.size()), P().kv("overload", on));
                return;
            }
            std::set<std::string> seen;
            for (int i = 0; i < y.size(); ++i) {
                std::vector<cld> refs;
                double cond;
                cpow_domain(zs[(size_t)i], ps[(size_t)i], refs, cond);
                PowRes r = cpow_check(ctx, "power(cmplx arrays)", zs[(size_t)i], ps[(size_t)i], y[i], refs, cond);
                if (r.ok) continue;
                const std::string key = r.det.str().substr(0, r.det.str().find("\"re\""));
                if (seen.insert(key).second)
                    ctx.fail("power", fmt("power(%s)[%d]=%s for %s^%.17g", on, i, cs(y[i]).c_str(), cs(zs[(size_t)i]).c_str(), ps[(size_t)i]), r.exp, r.det.kv("overload", on).kv("i", i));
            }
        };
        std::vector<int> ls = pass == 0 ? lengths() : std::vector<int>();
        ls.push_back((int)pairs.size());
        for (int L : ls) {
            if (!ctx.take(pass == 0 ? "arr.power.cmplx" : "arr.power.cmplx.branch", P().kv("len", L))) continue;
            ctx.nontrivial();
            const auto v = cyc(pairs, L);
            std::vector<cmplx_t> zs;
            std::vector<double> ps;
            for (auto& q : v) {
                zs.push_back(q.z);
                ps.push_back(q.p);
            }
            report("arr^arr", zs, ps, d::power(mkc(zs), mkr(ps)));
        }
        // scalar^array per base point; array^scalar and array^int per exponent
        for (cmplx_t z : CG) {
            if ((branch_class(z) != nullptr) != (pass == 1)) continue;
            if (!ctx.take(pass == 0 ? "arr.power.cmplx.scalar_base" : "arr.power.cmplx.scalar_base.branch", P().kv("re", z.re).kv("im", z.im))) continue;
            std::vector<double> ps;
            for (double p : EH) {
                std::vector<cld> refs;
                double cond;
                if (cpow_domain(z, p, refs, cond)) ps.push_back(p);
            }
            if (ps.empty()) continue;
            ctx.nontrivial();
            report("scalar^arr", std::vector<cmplx_t>(ps.size(), z), ps, d::power(z, mkr(ps)));
        }
        for (double p : EH) {
            if (!ctx.take(pass == 0 ? "arr.power.cmplx.scalar_exp" : "arr.power.cmplx.scalar_exp.branch", P().kv("p", p))) continue;
            std::vector<cmplx_t> zs;
            for (cmplx_t z : CG) {
                if ((branch_class(z) != nullptr) != (pass == 1)) continue;
                std::vector<cld> refs;
                double cond;
                if (cpow_domain(z, p, refs, cond)) zs.push_back(z);
            }
            if (zs.empty()) continue;
            ctx.nontrivial();
            report("arr^scalar", zs, std::vector<double>(zs.size(), p), d::power(mkc(zs), p));
            if (p == std::floor(p)) report("arr^int", zs, std::vector<double>(zs.size(), p), d::power(mkc(zs), (int)p));
        }
    }
    (void)EI;
}

// ------------------------------------------------------------------------------------------- reductions
static const int NLET = 15;
static const char* LET[NLET] = {"index", "constant", "alternating", "two-level", "lcg", "max-tie-ends", "min-tie-ends", "neg-index",
                                "zeros+", "zeros-", "zeros-mixed", "one-nonzero-first", "one-nonzero-mid", "one-nonzero-last", "late-extremes"};
static double rlet(int l, int i, int n) {
    switch (l) {
    case 0: return i + 1;
    case 1: return 0.1;
    case 2: return (i % 2 ? -0.7 : 0.7);
    case 3: return (i % 3 == 0) ? 5.5 : -0.25;
    case 4: return lcg_val(1701, (uint64_t)i) * 3;
    case 5: return (i == 0 || i == n - 1) ? 9.0 : (i % 4) - 1.0;
    case 6: return (i == 0 || i == n - 1) ? -9.0 : (i % 4) - 1.0;
    case 7: return -(i + 1) * 0.3;
    case 8: return 0.0;
    case 9: return -0.0;
    case 10: return (i % 2) ? -0.0 : 0.0;
    case 11: return i == 0 ? -2.5 : 0.0;
    case 12: return i == n / 2 ? -2.5 : ((i % 2) ? -0.0 : 0.0);
    case 13: return i == n - 1 ? -2.5 : -0.0;
    default: return i == n - 3 ? 99.0 : (i == n - 2 ? -99.0 : (i % 5) - 2.0);   // extremes near the end (beyond index 65536 for the big sizes)
    }
}
static cmplx_t clet(int l, int i, int n) {   // moduli are distinct unless the elements are identical (max/min by modulus well defined)
    switch (l) {
    case 0: return cmplx_t(i + 1, -(i + 2) * 0.5);
    case 1: return cmplx_t(0.1, -0.3);
    case 2: return (i % 2) ? cmplx_t(-0.7, 0.2) : cmplx_t(0.7, -0.2);
    case 3: return (i % 3 == 0) ? cmplx_t(5.5, 1) : cmplx_t(-0.25, 0.5);
    case 4: return cmplx_t(lcg_val(1702, (uint64_t)i) * 3, lcg_val(1703, (uint64_t)i) * 3);
    case 5: return (i == 0 || i == n - 1) ? cmplx_t(9, -9) : cmplx_t((i % 4) + 1.0, 1);
    case 6: return (i == 0 || i == n - 1) ? cmplx_t(0.125, 0) : cmplx_t((i % 4) + 1.0, 1);
    case 7: return cmplx_t(-(i + 1) * 0.3, (i + 1) * 0.4);
    case 8: return cmplx_t(0.0, 0.0);
    case 9: return cmplx_t(-0.0, -0.0);
    case 10: return (i % 2) ? cmplx_t(-0.0, 0.0) : cmplx_t(0.0, -0.0);
    case 11: return i == 0 ? cmplx_t(1.5, -2) : cmplx_t(0.0, 0.0);
    case 12: return i == n / 2 ? cmplx_t(1.5, -2) : ((i % 2) ? cmplx_t(-0.0, 0.0) : cmplx_t(0.0, -0.0));
    case 13: return i == n - 1 ? cmplx_t(1.5, -2) : cmplx_t(-0.0, -0.0);
    default: return i == n - 3 ? cmplx_t(99, -99) : (i == n - 2 ? cmplx_t(0.01, 0) : cmplx_t((i % 5) + 1.0, 1));
    }
}

static void red_fail(Ctx& ctx, const char* site, const std::string& what, double got, ld ref, double tol, const P& det = P()) {
    ctx.fail(site, fmt("%s=%.17g", what.c_str(), got), fmt("%.20Lg +- %.3g", ref, tol), det);
}
// scalar comparison with absolute tolerance; records err/tol
static bool red_ok(Ctx& ctx, const char* key, double got, ld ref, double tol) {
    const double e = std::isfinite(got) ? (double)fabsl((ld)got - ref) : INFINITY;
    if (tol > 0 && e <= tol) ctx.worst(std::string(key) + " err/tol (passing cases)", e / tol);
    return e <= tol;
}

static void run_reductions(Ctx& ctx) {
    for (int cplx = 0; cplx < 2; ++cplx)
        for (int l = 0; l < NLET; ++l)
            for (int n : lengths())
              for (int st = 0; st < 3; ++st) {   // storage of both operands: exact fit / spare capacity with stale data / mask selection
                const char* ty = cplx ? "cmplx" : "real";
                std::vector<cld> x((size_t)n), y((size_t)n);
                for (int i = 0; i < n; ++i) {
                    if (cplx) {
                        const cmplx_t a = clet(l, i, n), b = clet((l + 3) % NLET, n - 1 - i, n);
                        x[(size_t)i] = cld(a.re, a.im);
                        y[(size_t)i] = cld(b.re, b.im);
                    } else {
                        x[(size_t)i] = cld(rlet(l, i, n), 0);
                        y[(size_t)i] = cld(rlet((l + 3) % NLET, n - 1 - i, n), 0);
                    }
                }
                std::vector<double> vxr, vyr;
                std::vector<cmplx_t> vxc, vyc;
                for (int i = 0; i < n; ++i) {
                    vxr.push_back((double)x[(size_t)i].real());
                    vyr.push_back((double)y[(size_t)i].real());
                    vxc.push_back(cmplx_t((double)x[(size_t)i].real(), (double)x[(size_t)i].imag()));
                    vyc.push_back(cmplx_t((double)y[(size_t)i].real(), (double)y[(size_t)i].imag()));
                }
                const arr_cmplx xc = build_c(vxc, st), yc = build_c(vyc, st);
                const arr_real xr = build_r(vxr, st), yr = build_r(vyr, st);
                const P par = P().kv("type", ty).kv("letter", LET[l]).kv("n", n).kv("storage", STN[st]);
                const double ne = (n + 8) * EPS;
                ld sabs = 0, sabs2 = 0, maxabs = 0;
                cld s = 0;
                for (auto& v : x) {
                    s += v;
                    sabs += std::abs(v);
                    sabs2 += std::norm(v);
                    maxabs = std::max(maxabs, std::abs(v));
                }
                // ---- sum, mean
                if (ctx.take("reduce.sum_mean", par)) {
                    if (n >= 2) ctx.nontrivial();
                    const cmplx_t g = cplx ? d::sum(xc) : cmplx_t(d::sum(xr), 0), m = cplx ? d::mean(xc) : cmplx_t(d::mean(xr), 0);
                    const double e1 = (double)std::abs(cld(g.re, g.im) - s), t1 = ne * (double)sabs;
                    const double e2 = (double)std::abs(cld(m.re, m.im) - s / (ld)n), t2 = ne * (double)sabs / n;
                    if (t1 > 0) ctx.worst("sum err/tol", e1 / t1);   // all-zero letters: tolerance 0, the result must be exactly zero
                    if (t2 > 0) ctx.worst("mean err/tol", e2 / t2);
                    if (!(e1 <= t1)) ctx.fail("sum", "sum=" + cs(g), cs(s));
                    if (!(e2 <= t2)) ctx.fail("mean", "mean=" + cs(m), cs(s / (ld)n));
                }
                // ---- cumsum both directions
                if (ctx.take("reduce.cumsum", par)) {
                    if (n >= 2) ctx.nontrivial();
                    for (int dir = 0; dir < 2; ++dir) {
                        const d::Direction dd = dir == 0 ? d::Direction::Forward : d::Direction::Reverse;
                        arr_cmplx g;
                        if (cplx) g = d::cumsum(xc, dd);
                        else g = d::complex(d::cumsum(xr, dd));
                        if (dir == 0 && l == 0) {   // default argument = Forward
                            const arr_cmplx g0 = cplx ? d::cumsum(xc) : d::complex(d::cumsum(xr));
                            if (!bitsame(g0, g)) ctx.fail("cumsum", "default direction differs from Forward", "Forward", P().kv("what", "default"));
                        }
                        if (g.size() != n) {
                            ctx.fail("cumsum", fmt("size %d", g.size()), fmt("%d", n));
                            continue;
                        }
                        cld acc = 0;
                        ld aabs = 0;
                        for (int k = 0; k < n; ++k) {
                            const int i = dir == 0 ? k : n - 1 - k;
                            acc += x[(size_t)i];
                            aabs += std::abs(x[(size_t)i]);
                            const double e = (double)std::abs(cld(g[i].re, g[i].im) - acc), t = (k + 9) * EPS * (double)aabs;
                            if (t > 0) ctx.worst("cumsum err/tol", e / t);
                            if (!(e <= t)) {
                                ctx.fail("cumsum", fmt("cumsum(%s)[%d]=%s", dir ? "Reverse" : "Forward", i, cs(g[i]).c_str()), cs(acc), P().kv("dir", dir).kv("i", i));
                                break;
                            }
                        }
                    }
                }
                // ---- dot: complex dot is accepted as the bilinear form sum x*y or either Hermitian form (the statement does not say)
                if (ctx.take("reduce.dot", par)) {
                    if (n >= 2) ctx.nontrivial();
                    cld b = 0, h1 = 0, h2 = 0;
                    ld terms = 0;
                    for (int i = 0; i < n; ++i) {
                        b += x[(size_t)i] * y[(size_t)i];
                        h1 += std::conj(x[(size_t)i]) * y[(size_t)i];
                        h2 += x[(size_t)i] * std::conj(y[(size_t)i]);
                        terms += (fabsl(x[(size_t)i].real()) + fabsl(x[(size_t)i].imag())) * (fabsl(y[(size_t)i].real()) + fabsl(y[(size_t)i].imag()));
                    }
                    const cmplx_t g = cplx ? d::dot(xc, yc) : cmplx_t(d::dot(xr, yr), 0);
                    const double t = ne * (double)terms;
                    const double eb = (double)std::abs(cld(g.re, g.im) - b), e1 = (double)std::abs(cld(g.re, g.im) - h1), e2 = (double)std::abs(cld(g.re, g.im) - h2);
                    if (t > 0) ctx.worst("dot err/tol", std::min(eb, std::min(e1, e2)) / t);
                    if (cplx) ctx.note(eb <= t ? "dot(cmplx) matches bilinear sum x*y" : (e1 <= t ? "dot(cmplx) matches sum conj(x)*y" : "dot(cmplx) matches sum x*conj(y) or nothing"));
                    if (!(eb <= t || e1 <= t || e2 <= t)) ctx.fail("dot", "dot=" + cs(g), cs(b));
                }
                // ---- rms (divide by n) - known finding F22 is classified by nm1 = "value equals the n-1 normalisation"
                if (ctx.take("reduce.rms", par)) {
                    ctx.nontrivial();
                    const double g = cplx ? d::rms(xc) : d::rms(xr);
                    const ld ref = sqrtl(sabs2 / (ld)n);
                    const double tol = ne * (double)ref;
                    if (!red_ok(ctx, "rms", g, ref, tol)) {
                        bool nm1;
                        if (n == 1) nm1 = std::isinf(g) && g > 0;
                        else nm1 = std::isfinite(g) && fabsl((ld)g - sqrtl(sabs2 / (ld)(n - 1))) <= tol * 2;
                        red_fail(ctx, "rms", "rms", g, ref, tol, P().kv("nm1", nm1));
                    }
                }
                // ---- stddev (n - 1 normalisation, n >= 2)
                if (n >= 2 && ctx.take("reduce.stddev", par)) {
                    ctx.nontrivial();
                    const double g = cplx ? d::stddev(xc) : d::stddev(xr);
                    const cld m = s / (ld)n;
                    ld q = 0;
                    for (auto& v : x) q += std::norm(v - m);
                    const ld ref = sqrtl(q / (ld)(n - 1));
                    // each deviation x_i - mean carries an absolute error of about (n+2) eps max|x| (the mean is itself rounded)
                    const double tol = 4 * ne * (double)maxabs;
                    if (!red_ok(ctx, "stddev", g, ref, tol)) red_fail(ctx, "stddev", "stddev", g, ref, tol);
                }
                // ---- norm p = 1, 2, 3 and the default (2)
                if (ctx.take("reduce.norm", par)) {
                    if (n >= 2) ctx.nontrivial();
                    for (int p : {0, 1, 2, 3, 4, 8}) {   // 0 = default argument (2)
                        double g;
                        if (p == 0) g = cplx ? d::norm(xc) : d::norm(xr);
                        else g = cplx ? d::norm(xc, p) : d::norm(xr, p);
                        ld ref, sp = 0;
                        if (p >= 3) {
                            for (auto& v : x) sp += powl(std::abs(v), (ld)p);
                            ref = powl(sp, 1.0L / p);
                        } else {
                            ref = (p == 1) ? sabs : sqrtl(sabs2);
                        }
                        // p >= 3: the exponent 1/p may be rounded -> extra relative error |ln S| eps / p; an all-zero vector has norm exactly 0
                        const double tol = (ne + ((p >= 3 && sp > 0) ? EPS * (8 + std::fabs((double)logl(sp))) : 0.0)) * (double)ref;
                        if (!red_ok(ctx, p >= 3 ? "norm p>=3" : "norm1/2", g, ref, tol)) red_fail(ctx, "norm", fmt("norm(x,%d)", p), g, ref, tol, P().kv("p", p));
                    }
                }
                // ---- min / max / argmin / argmax / peak2peak (complex: ordered by modulus); any position of a tie is accepted
                if (ctx.take("reduce.minmax", par)) {
                    if (n >= 2) ctx.nontrivial();
                    auto key = [&](int i) { return cplx ? (double)(xc[i].re * xc[i].re + xc[i].im * xc[i].im) : xr[i]; };
                    double kmax = key(0), kmin = key(0);
                    for (int i = 1; i < n; ++i) {
                        kmax = std::max(kmax, key(i));
                        kmin = std::min(kmin, key(i));
                    }
                    const int imax = cplx ? d::argmax(xc) : d::argmax(xr), imin = cplx ? d::argmin(xc) : d::argmin(xr);
                    if (imax < 0 || imax >= n || key(imax) != kmax) ctx.fail("argmax", fmt("argmax=%d", imax), "index of a maximal element");
                    if (imin < 0 || imin >= n || key(imin) != kmin) ctx.fail("argmin", fmt("argmin=%d", imin), "index of a minimal element");
                    const cmplx_t vmax = cplx ? d::max(xc) : cmplx_t(d::max(xr), 0), vmin = cplx ? d::min(xc) : cmplx_t(d::min(xr), 0);
                    bool fmax = false, fmin = false;
                    for (int i = 0; i < n; ++i) {
                        const cmplx_t e = cplx ? xc[i] : cmplx_t(xr[i], 0);
                        if (key(i) == kmax && e.re == vmax.re && e.im == vmax.im) fmax = true;
                        if (key(i) == kmin && e.re == vmin.re && e.im == vmin.im) fmin = true;
                    }
                    if (!fmax) ctx.fail("max", "max=" + cs(vmax), "a maximal element of the array");
                    if (!fmin) ctx.fail("min", "min=" + cs(vmin), "a minimal element of the array");
                    // max(x) and x[argmax(x)] agree (real: same value; complex: same magnitude, and the same value unless distinct
                    // elements tie in magnitude - no tie convention is demanded); likewise min
                    if (imax >= 0 && imax < n && imin >= 0 && imin < n) {
                        bool one_max = true, one_min = true;   // all maximal / minimal elements carry the same value
                        for (int i = 0; i < n; ++i) {
                            const cmplx_t e = cplx ? xc[i] : cmplx_t(xr[i], 0), em = cplx ? xc[imax] : cmplx_t(xr[imax], 0), en = cplx ? xc[imin] : cmplx_t(xr[imin], 0);
                            if (key(i) == kmax && !(e.re == em.re && e.im == em.im)) one_max = false;
                            if (key(i) == kmin && !(e.re == en.re && e.im == en.im)) one_min = false;
                        }
                        const cmplx_t am = cplx ? xc[imax] : cmplx_t(xr[imax], 0), an = cplx ? xc[imin] : cmplx_t(xr[imin], 0);
                        const double kvmax = cplx ? vmax.re * vmax.re + vmax.im * vmax.im : vmax.re, kvmin = cplx ? vmin.re * vmin.re + vmin.im * vmin.im : vmin.re;
                        if (kvmax != kmax || (one_max && !(am.re == vmax.re && am.im == vmax.im))) ctx.fail("max", "max=" + cs(vmax) + fmt(" but x[argmax=%d]=", imax) + cs(am), "max(x) == x[argmax(x)]", P().kv("what", "consistency"));
                        if (kvmin != kmin || (one_min && !(an.re == vmin.re && an.im == vmin.im))) ctx.fail("min", "min=" + cs(vmin) + fmt(" but x[argmin=%d]=", imin) + cs(an), "min(x) == x[argmin(x)]", P().kv("what", "consistency"));
                        ctx.note((one_max && one_min) ? "minmax extremes single-valued" : "minmax distinct elements tie in magnitude");
                    }
                    // peak2peak = (a maximal element) - (a minimal element); with ties in modulus any such pair is accepted
                    const cmplx_t pp = cplx ? d::peak2peak(xc) : cmplx_t(d::peak2peak(xr), 0);
                    bool okpp = false;
                    cld ref0 = 0;
                    std::vector<cld> cmax, cmin;   // distinct maximal / minimal values (bounded: the search must stay cheap for 200000 tied elements)
                    for (int i = 0; i < n; ++i) {
                        if (key(i) == kmax && cmax.size() < 16 && std::find(cmax.begin(), cmax.end(), x[(size_t)i]) == cmax.end()) cmax.push_back(x[(size_t)i]);
                        if (key(i) == kmin && cmin.size() < 16 && std::find(cmin.begin(), cmin.end(), x[(size_t)i]) == cmin.end()) cmin.push_back(x[(size_t)i]);
                    }
                    for (const cld& a : cmax)
                        for (const cld& b : cmin) {
                            if (okpp) break;
                            ref0 = a - b;
                            okpp = (double)std::abs(cld(pp.re, pp.im) - ref0) <= CTOL * EPS * (double)(std::abs(a) + std::abs(b));
                        }
                    if (!okpp) ctx.fail("peak2peak", "peak2peak=" + cs(pp), cs(ref0));
                    ctx.note(std::string("minmax letter ") + LET[l]);
                }
            }
}

// ------------------------------------------------------------------------------------------- shape functions
template<class A>
static A tagged(int n, int base);
template<>
arr_real tagged<arr_real>(int n, int base) {
    arr_real a(n);
    for (int i = 0; i < n; ++i) a[i] = base + i + 1;
    return a;
}
template<>
arr_cmplx tagged<arr_cmplx>(int n, int base) {
    arr_cmplx a(n);
    for (int i = 0; i < n; ++i) a[i] = cmplx_t(base + i + 1, -(base + i + 1) - 0.5);
    return a;
}
template<class A>
static bool is_zero_elem(const A& a, int i);
template<>
bool is_zero_elem<arr_real>(const arr_real& a, int i) { return a[i] == 0; }
template<>
bool is_zero_elem<arr_cmplx>(const arr_cmplx& a, int i) { return a[i].re == 0 && a[i].im == 0; }
static bool same_elem(double a, double b) { return biteq(a, b); }
static bool same_elem(cmplx_t a, cmplx_t b) { return biteq(a.re, b.re) && biteq(a.im, b.im); }

static int B(int quick, int thorough) { return g_thorough ? thorough : quick; }   // box bound per tier

template<class A>
static void shapes_typed(Ctx& ctx, const char* ty) {
    // upsample / downsample: every (len <= 12, factor <= 12, phase < min(factor, len)); round trip
    for (int len = 1; len <= B(12, 32); ++len)
        for (int f = 1; f <= B(12, 32); ++f)
            for (int ph = 0; ph < std::min(f, len); ++ph) {
                if (!ctx.take("shape.updown", P().kv("type", ty).kv("len", len).kv("factor", f).kv("phase", ph))) continue;
                if (f >= 2 && len >= 2) ctx.nontrivial();
                const A x = tagged<A>(len, 0);
                // upsample: length len*f, x[i] at i*f+phase, zeros elsewhere
                const A u = ph == 0 && f % 2 ? d::upsample(x, f) : d::upsample(x, f, ph);
                bool ok = u.size() == len * f;
                for (int k = 0; ok && k < u.size(); ++k) ok = (k % f == ph) ? same_elem(u[k], x[k / f]) : is_zero_elem(u, k);
                if (!ok) ctx.fail("upsample", fmt("upsample wrong (size %d)", u.size()), fmt("size %d, x[i] at i*%d+%d, zeros elsewhere", len * f, f, ph));
                // downsample: elements phase, phase+f, ... < len
                const A dn = ph == 0 && f % 2 ? d::downsample(x, f) : d::downsample(x, f, ph);
                const int nd = (len - ph + f - 1) / f;
                ok = dn.size() == nd;
                for (int k = 0; ok && k < nd; ++k) ok = same_elem(dn[k], x[ph + k * f]);
                if (!ok) ctx.fail("downsample", fmt("downsample wrong (size %d)", dn.size()), fmt("size %d, x[%d + k*%d]", nd, ph, f));
                // inverse pair
                if (u.size() == len * f) {
                    const A back = d::downsample(u, f, ph);
                    if (!bitsame(back, x)) ctx.fail("upsample/downsample", "downsample(upsample(x,n,p),n,p) != x", "x");
                }
            }
    // repelem (len <= 6, n <= 5), flip (len <= 12), zeropad (len <= 8, pad <= 8)
    for (int len = 1; len <= B(6, 16); ++len)
        for (int n = 0; n <= B(5, 12); ++n) {
            if (!ctx.take("shape.repelem", P().kv("type", ty).kv("len", len).kv("n", n))) continue;
            if (len >= 2 && n >= 2) ctx.nontrivial();
            const A x = tagged<A>(len, 3);
            const A r = d::repelem(x, n);
            bool ok = r.size() == len * n;
            for (int k = 0; ok && k < r.size(); ++k) ok = same_elem(r[k], x[k / n]);
            if (!ok) ctx.fail("repelem", fmt("repelem wrong (size %d)", r.size()), fmt("size %d, each element %d times", len * n, n));
        }
    for (int len = 0; len <= B(12, 64); ++len) {
        if (!ctx.take("shape.flip", P().kv("type", ty).kv("len", len))) continue;
        if (len >= 2) ctx.nontrivial();
        const A x = tagged<A>(len, 1);
        const A r = d::flip(x);
        bool ok = r.size() == len;
        for (int k = 0; ok && k < len; ++k) ok = same_elem(r[k], x[len - 1 - k]);
        if (!ok) ctx.fail("flip", fmt("flip wrong (size %d)", r.size()), "reversed order");
    }
    for (int len = 0; len <= B(8, 24); ++len)
        for (int pad = 0; pad <= B(8, 24); ++pad) {
            if (!ctx.take("shape.zeropad", P().kv("type", ty).kv("len", len).kv("n", len + pad))) continue;
            if (len >= 1 && pad >= 1) ctx.nontrivial();
            const A x = tagged<A>(len, 2);
            const A r = d::zeropad(x, len + pad);
            bool ok = r.size() == len + pad;
            for (int k = 0; ok && k < r.size(); ++k) ok = k < len ? same_elem(r[k], x[k]) : is_zero_elem(r, k);
            if (!ok) ctx.fail("zeropad", fmt("zeropad wrong (size %d)", r.size()), fmt("x followed by %d zeros", pad));
        }
    // delayseq: every (N <= 10, d in [-12, 12]) (thorough N <= 32, d in [-40, 40])
    auto delay_ok = [](const A& x, const A& r, int dl) {
        const int N = x.size();
        bool ok = r.size() == N;
        for (int i = 0; ok && i < N; ++i) {
            const long long src = (long long)i - dl;
            ok = (src >= 0 && src < N) ? same_elem(r[i], x[(int)src]) : is_zero_elem(r, i);
        }
        return ok;
    };
    for (int N = 1; N <= B(10, 32); ++N)
        for (int dl = -B(12, 40); dl <= B(12, 40); ++dl) {
            if (!ctx.take("shape.delayseq", P().kv("type", ty).kv("N", N).kv("delay", dl))) continue;
            if (dl != 0 && std::abs(dl) < N) ctx.nontrivial();
            const A x = tagged<A>(N, 0);
            if (!delay_ok(x, d::delayseq(x, dl), dl)) ctx.fail("delayseq", fmt("delayseq(N=%d, delay=%d) wrong", N, dl), "x shifted by delay, zero filled");
        }
    // ---- big shapes: element counts beyond 65536
    {
        if (ctx.take("shape.big", P().kv("type", ty).kv("what", "upsample/downsample 70000 x3 phase 1"))) {
            ctx.nontrivial();
            const A x = tagged<A>(70000, 0);
            const A u = d::upsample(x, 3, 1);
            bool ok = u.size() == 210000;
            for (int k = 0; ok && k < u.size(); ++k) ok = (k % 3 == 1) ? same_elem(u[k], x[k / 3]) : is_zero_elem(u, k);
            if (!ok) ctx.fail("upsample", fmt("upsample(70000,3,1) wrong (size %d)", u.size()), "size 210000, x[i] at 3i+1");
            if (u.size() == 210000 && !bitsame(d::downsample(u, 3, 1), x)) ctx.fail("upsample/downsample", "downsample(upsample(x,3,1),3,1) != x (70000)", "x");
        }
        if (ctx.take("shape.big", P().kv("type", ty).kv("what", "downsample 200000 /3 phase 2"))) {
            ctx.nontrivial();
            const A x = tagged<A>(200000, 0);
            const A dn = d::downsample(x, 3, 2);
            bool ok = dn.size() == 66666;
            for (int k = 0; ok && k < dn.size(); ++k) ok = same_elem(dn[k], x[2 + 3 * k]);
            if (!ok) ctx.fail("downsample", fmt("downsample(200000,3,2) wrong (size %d)", dn.size()), "66666 elements x[2+3k]");
        }
        if (ctx.take("shape.big", P().kv("type", ty).kv("what", "repelem 70000 x3"))) {
            ctx.nontrivial();
            const A x = tagged<A>(70000, 3);
            const A r = d::repelem(x, 3);
            bool ok = r.size() == 210000;
            for (int k = 0; ok && k < r.size(); ++k) ok = same_elem(r[k], x[k / 3]);
            if (!ok) ctx.fail("repelem", fmt("repelem(70000,3) wrong (size %d)", r.size()), "210000 elements");
        }
        if (ctx.take("shape.big", P().kv("type", ty).kv("what", "flip 200000, zeropad 70000->200000"))) {
            ctx.nontrivial();
            const A x = tagged<A>(200000, 1);
            const A r = d::flip(x);
            bool ok = r.size() == 200000;
            for (int k = 0; ok && k < 200000; ++k) ok = same_elem(r[k], x[199999 - k]);
            if (!ok) ctx.fail("flip", "flip(200000) wrong", "reversed order");
            const A y = tagged<A>(70000, 2);
            const A z = d::zeropad(y, 200000);
            ok = z.size() == 200000;
            for (int k = 0; ok && k < 200000; ++k) ok = k < 70000 ? same_elem(z[k], y[k]) : is_zero_elem(z, k);
            if (!ok) ctx.fail("zeropad", "zeropad(70000 -> 200000) wrong", "x followed by 130000 zeros");
        }
        for (int dl : {1, 65536, 70000, -65537, 199999, -200000}) {
            if (!ctx.take("shape.big", P().kv("type", ty).kv("what", "delayseq 200000").kv("delay", dl))) continue;
            ctx.nontrivial();
            const A x = tagged<A>(200000, 0);
            if (!delay_ok(x, d::delayseq(x, dl), dl)) ctx.fail("delayseq", fmt("delayseq(N=200000, delay=%d) wrong", dl), "x shifted by delay, zero filled");
        }
    }
}

// integer arange: start + k*step for every k >= 0 strictly before stop
static std::vector<double> arange_ref(int a, int b, int s) {
    std::vector<double> r;
    for (int v = a; s > 0 ? v < b : v > b; v += s) r.push_back(v);
    return r;
}

// one call of the integer arange; outcome classification for the known finding F23
struct ArOut {
    bool ok = true;
    std::string cls, obs;
};
template<class F>
static ArOut arange_int_one(F call, int a, int b, int s) {
    const auto ref = arange_ref(a, b, s);
    ArOut o;
    arr_real g;
    try {
        g = call();
    } catch (const std::length_error& e) {
        o.ok = false;
        o.cls = ref.empty() ? "empty_throws" : "throws";
        o.obs = std::string("std::length_error: ") + e.what();
        return o;
    } catch (const std::exception& e) {
        o.ok = false;
        o.cls = "throws";
        o.obs = std::string("exception: ") + e.what();
        return o;
    }
    bool same = (size_t)g.size() == ref.size();
    for (int i = 0; same && i < g.size(); ++i) same = g[i] == ref[(size_t)i];
    if (same) return o;
    o.ok = false;
    o.obs = show(g);
    // "count rounded instead of ceiling": the result is the correct prefix/extension with round((b-a)/s) elements
    const long cnt_round = std::lround((b - a) / double(s));
    bool pref = (long)g.size() == cnt_round && (size_t)g.size() != ref.size();
    for (int i = 0; pref && i < g.size(); ++i) pref = g[i] == a + (double)i * s;
    o.cls = pref ? "count_round" : "other";
    return o;
}

static void run_shapes(Ctx& ctx) {
    shapes_typed<arr_real>(ctx, "real");
    shapes_typed<arr_cmplx>(ctx, "cmplx");
    // linspace: n = 1..100 x 5 endpoint pairs; element i = x1 + i (x2-x1)/(n-1) within 8 eps max(|x1|,|x2|); n = 1 -> {x2} (MATLAB) or {x1}
    {
        // the last five pairs are degenerate: a constant range (x1 == x2, step 0) and ranges a few ulps wide (step below the spacing
        // of the doubles around x1) - a length derived from (x2-x1)/step instead of n fails exactly there
        const double ends[10][2] = {{0, 1}, {-1, 1}, {5, -3}, {0.1, 0.7}, {-1e6, 1e-3}, {2.5, 2.5}, {0, 0}, {1e16, 1e16 + 2}, {1, 1 + 4 * 2.220446049250313e-16}, {-3, -3 + 8.881784197001252e-16}};
        for (int n = 1; n <= B(100, 400); ++n)
            for (int e = 0; e < 10; ++e) {
                if (!ctx.take("shape.linspace", P().kv("n", n).kv("x1", ends[e][0]).kv("x2", ends[e][1]))) continue;
                if (n >= 3) ctx.nontrivial();
                const double x1 = ends[e][0], x2 = ends[e][1], sc = std::max(std::fabs(x1), std::fabs(x2));
                arr_real r;
                try {
                    r = d::linspace(x1, x2, (size_t)n);
                } catch (const std::exception& ex) {
                    ctx.fail("linspace", fmt("exception: %s", ex.what()), fmt("%d values", n), P().kv("what", "throw"));
                    continue;
                }
                if (r.size() != n) {
                    ctx.fail("linspace", fmt("size %d", r.size()), fmt("%d", n));
                    continue;
                }
                if (n == 1) {
                    if (!(r[0] == x2 || r[0] == x1)) ctx.fail("linspace", fmt("linspace(x1,x2,1)=[%.17g]", r[0]), "x2 (or x1)");
                    continue;
                }
                for (int i = 0; i < n; ++i) {
                    const ld ref = (ld)x1 + (ld)i * ((ld)x2 - (ld)x1) / (ld)(n - 1);
                    const double err = (double)fabsl((ld)r[i] - ref);
                    ctx.worst("linspace err/(eps*max|x|)", err / (EPS * sc));
                    if (!(err <= CTOL * EPS * sc)) {
                        ctx.fail("linspace", fmt("linspace[%d]=%.17g", i, r[i]), fmt("%.20Lg", ref), P().kv("i", i));
                        break;
                    }
                }
            }
    }
    // integer arange: every (start, stop, step) in [-12,12]^3, step != 0; a case is a (start, step) block over all stops and
    // reports the first failure of each class
    const int AB = B(12, 40);
    for (int a = -AB; a <= AB; ++a)
        for (int s = -AB; s <= AB; ++s) {
            if (s == 0) continue;
            if (!ctx.take("shape.arange.int", P().kv("start", a).kv("step", s))) continue;
            ctx.nontrivial();
            std::set<std::string> seen;
            for (int b = -AB; b <= AB; ++b) {
                ArOut o = s == 1 && (b & 1) ? arange_int_one([&] { return d::arange(a, b); }, a, b, s) : arange_int_one([&] { return d::arange(a, b, s); }, a, b, s);
                const auto ref = arange_ref(a, b, s);
                ctx.note(ref.empty() ? "arange(int) expected empty" : (((b - a) % s) ? "arange(int) count not integral" : "arange(int) count integral"));
                if (!o.ok && seen.insert(o.cls).second)
                    ctx.fail("arange", fmt("arange(%d,%d,%d)=%s", a, b, s, o.obs.c_str()), show(ref), P().kv("cls", o.cls).kv("stop", b));
            }
        }
    for (int b = -AB; b <= AB; ++b) {
        if (!ctx.take("shape.arange.int1", P().kv("stop", b))) continue;
        if (b >= 2) ctx.nontrivial();
        ArOut o = arange_int_one([&] { return d::arange(b); }, 0, b, 1);
        if (!o.ok) ctx.fail("arange", fmt("arange(%d)=%s", b, o.obs.c_str()), show(arange_ref(0, b, 1)), P().kv("cls", o.cls).kv("stop", b));
    }
    // fractional arange with an exactly integral count (dyadic steps: start + count*step is exact): count <= 20, 6 steps, 4 starts
    {
        const double steps[6] = {0.25, 0.5, 1.5, -0.75, 0.125, -2.5}, starts[4] = {-1, 0, 0.75, 2};
        for (double st : starts)
            for (double sp : steps)
                for (int cnt = 0; cnt <= B(20, 64); ++cnt) {
                    if (!ctx.take("shape.arange.frac", P().kv("start", st).kv("step", sp).kv("count", cnt))) continue;
                    if (cnt >= 2) ctx.nontrivial();
                    const double stop = st + cnt * sp;   // exact
                    std::vector<arr_real> rs;
                    std::vector<const char*> names;
                    try {
                        rs.push_back(d::arange(st, stop, sp));
                        names.push_back("double,double,double");
                        if (st == std::floor(st)) {
                            rs.push_back(d::arange((int)st, stop, sp));
                            names.push_back("int,double,double");
                        }
                        if (st == 0 && sp == 1.5) {
                            rs.push_back(d::arange(st, stop, 1.5f));
                            names.push_back("double,double,float");
                        }
                    } catch (const std::exception& e) {
                        ctx.fail("arange", fmt("arange(%.17g,%.17g,%.17g) throws %s", st, stop, sp, e.what()), fmt("%d elements", cnt));
                        continue;
                    }
                    for (size_t k = 0; k < rs.size(); ++k) {
                        bool ok = rs[k].size() == cnt;
                        for (int i = 0; ok && i < cnt; ++i) ok = rs[k][i] == st + i * sp;   // exact for dyadic steps
                        if (!ok) ctx.fail("arange", fmt("arange<%s>(%.17g,%.17g,%.17g)=%s", names[k], st, stop, sp, show(rs[k]).c_str()), fmt("%d elements start + i*step", cnt), P().kv("overload", names[k]));
                    }
                }
        for (int cnt = 0; cnt <= B(20, 64); ++cnt) {
            if (!ctx.take("shape.arange.frac1", P().kv("stop", cnt))) continue;
            const arr_real r = d::arange((double)cnt);
            bool ok = r.size() == cnt;
            for (int i = 0; ok && i < cnt; ++i) ok = r[i] == i;
            if (!ok) ctx.fail("arange", fmt("arange(%d.0)=%s", cnt, show(r).c_str()), fmt("0..%d", cnt - 1));
        }
    }
    // ---- big generators: counts beyond 65536
    for (int n : {65537, 70001, 200000})
        for (int e = 0; e < 2; ++e) {
            const double x1 = e == 0 ? 0.0 : -1e6, x2 = e == 0 ? 1.0 : 1e-3;
            if (!ctx.take("shape.big", P().kv("type", "real").kv("what", "linspace").kv("n", n).kv("x1", x1).kv("x2", x2))) continue;
            ctx.nontrivial();
            const arr_real r = d::linspace(x1, x2, (size_t)n);
            if (r.size() != n) {
                ctx.fail("linspace", fmt("size %d", r.size()), fmt("%d", n));
                continue;
            }
            const double sc = std::max(std::fabs(x1), std::fabs(x2));
            for (int i = 0; i < n; ++i) {
                const ld ref = (ld)x1 + (ld)i * ((ld)x2 - (ld)x1) / (ld)(n - 1);
                const double err = (double)fabsl((ld)r[i] - ref);
                ctx.worst("linspace (big n) err/(eps*max|x|)", err / (EPS * sc));
                if (!(err <= CTOL * EPS * sc)) {
                    ctx.fail("linspace", fmt("linspace[%d]=%.17g (n=%d)", i, r[i], n), fmt("%.20Lg", ref), P().kv("i", i));
                    break;
                }
            }
        }
    {
        const int big[4][3] = {{0, 200000, 1}, {0, 200000, 3}, {-70000, 70000, 2}, {100000, -100000, -1}};
        for (auto& t : big) {
            if (!ctx.take("shape.big", P().kv("type", "real").kv("what", "arange int").kv("start", t[0]).kv("stop", t[1]).kv("step", t[2]))) continue;
            ctx.nontrivial();
            const int a = t[0], b = t[1], st = t[2];
            ArOut o = arange_int_one([&] { return d::arange(a, b, st); }, a, b, st);
            if (!o.ok) ctx.fail("arange", fmt("arange(%d,%d,%d) wrong: %s", a, b, st, o.obs.substr(0, 200).c_str()), "start + k*step before stop", P().kv("cls", o.cls));
        }
    }
    // fractional arange with non-dyadic (decimal) steps.  stop = start + count*step evaluated in long double and rounded to
    // double.  The statement's "count (stop-start)/step is integral" is decided from the DOUBLE arguments in long double:
    // if the quotient is within 1e-9 of an integer k the range has exactly k elements and does not contain stop (a count
    // one off is a violation); otherwise the rounding is ambiguous, a count of floor or ceil of the quotient is accepted
    // and only noted.  Element i = start + i*step (long double from the double arguments) within
    // 8 eps * max(|start|, |i*step|, |result|): an element must not carry an error that grows with its index.
    {
        auto arange_case = [&](const char* check, double st, double sp, int cnt) {
            if (!ctx.take(check, P().kv("start", st).kv("step", sp).kv("count", cnt))) return;
            if (cnt >= 2) ctx.nontrivial();
            const double stop = (double)((ld)st + (ld)cnt * (ld)sp);
            const ld q = ((ld)stop - (ld)st) / (ld)sp;
            const bool integral = fabsl(q - roundl(q)) <= 1e-9L;
            const int k_int = (int)roundl(q);
            std::vector<arr_real> rs;
            std::vector<const char*> names;
            try {
                rs.push_back(d::arange(st, stop, sp));
                names.push_back("double,double,double");
                if (st == std::floor(st) && std::fabs(st) < 100) {
                    rs.push_back(d::arange((int)st, stop, sp));
                    names.push_back("int,double,double");
                }
            } catch (const std::exception& e) {
                ctx.fail("arange", fmt("arange(%.17g,%.17g,%.17g) throws %s", st, stop, sp, e.what()), fmt("%d elements", cnt));
                return;
            }
            for (size_t k = 0; k < rs.size(); ++k) {
                const arr_real& r = rs[k];
                if (integral) {
                    ctx.note(std::string(check) + ": quotient integral within 1e-9, count judged");
                    if (r.size() != k_int) {
                        ctx.fail("arange", fmt("arange<%s>(%.17g,%.17g,%.17g) has %d elements (last %.17g)", names[k], st, stop, sp, r.size(), r.size() ? r[r.size() - 1] : 0.0),
                                 fmt("%d elements ((stop-start)/step = %.12Lg), stop not included", k_int, q), P().kv("what", "count").kv("overload", names[k]).kv("got", r.size()).kv("want", k_int));
                        continue;
                    }
                } else {
                    ctx.note(std::string(check) + ": quotient not integral within 1e-9 (ambiguous rounding), count floor or ceil accepted");
                    if (r.size() != (int)floorl(q) && r.size() != (int)ceill(q)) {
                        ctx.fail("arange", fmt("arange<%s>(%.17g,%.17g,%.17g) has %d elements", names[k], st, stop, sp, r.size()), fmt("%d or %d", (int)floorl(q), (int)ceill(q)), P().kv("what", "count").kv("overload", names[k]));
                        continue;
                    }
                }
                const int m = r.size();
                for (int i = 0; i < m; ++i) {
                    const ld ref = (ld)st + (ld)i * (ld)sp;
                    const double scale = std::max(std::max(std::fabs(st), std::fabs(i * sp)), std::fabs((double)ref));
                    const double u = scale > 0 ? (double)(fabsl((ld)r[i] - ref) / (EPS * scale)) : (r[i] == 0 ? 0.0 : INFINITY);
                    ctx.worst("arange(fractional, decimal steps) err/(eps*max(|start|,|k*step|,|result|))", std::isfinite(u) ? u : 1e300);
                    if (!(u <= CTOL)) {
                        ctx.fail("arange", fmt("arange<%s>(%.17g,%.17g,%.17g)[%d]=%.17g (%.1f rounding units)", names[k], st, stop, sp, i, r[i], u), fmt("%.20Lg", ref),
                                 P().kv("what", "element").kv("i", i).kv("overload", names[k]));
                        break;
                    }
                }
                // the range does not contain stop: the last element lies strictly before it
                if (integral && m > 0 && !(sp > 0 ? r[m - 1] < stop : r[m - 1] > stop))
                    ctx.fail("arange", fmt("last element %.17g not before stop %.17g", r[m - 1], stop), "strictly before stop", P().kv("what", "last").kv("overload", names[k]));
            }
        };
        // long ranges
        {
            const double steps[6] = {0.1, 0.01, 0.6, 1.0 / 3, -0.7, 1e-3}, starts[4] = {0, -5, 2.5, 1e6};
            std::vector<int> counts = {100, 1000, 10000, 100000};
            if (g_thorough) counts.push_back(1000000);
            for (double st : starts)
                for (double sp : steps)
                    for (int cnt : counts) arange_case("shape.arange.long", st, sp, cnt);
        }
        // decimal grid: every count 1..200 (thorough 1..2000)
        {
            const double steps[7] = {0.1, 0.01, 0.3, 0.7, 1e-3, -0.1, -0.3}, starts[4] = {0, 1, -5, 2.5};
            for (double st : starts)
                for (double sp : steps)
                    for (int cnt = 1; cnt <= B(200, 2000); ++cnt) arange_case("shape.arange.decimal", st, sp, cnt);
        }
    }
}

// dot(x, y) for every n in 0..64 (and 65, 127, 129, 1001, 65537): two letters, three kinds of operand storage
// (independently for x and y), real and complex, against the long-double sum
static void run_dot_sweep(Ctx& ctx) {
    std::vector<int> ns;
    for (int n = 0; n <= 64; ++n) ns.push_back(n);
    for (int n : {65, 127, 129, 1001, 65537}) ns.push_back(n);
    for (int n : ns)
        for (int cplx = 0; cplx < 2; ++cplx)
            for (int l = 0; l < 2; ++l)
                for (int sx = 0; sx < 3; ++sx)
                    for (int sy = 0; sy < 3; ++sy) {
                        if (!ctx.take("reduce.dot.sweep", P().kv("type", cplx ? "cmplx" : "real").kv("n", n).kv("letter", l ? "lcg" : "index").kv("sx", STN[sx]).kv("sy", STN[sy]))) continue;
                        if (n >= 2) ctx.nontrivial();
                        std::vector<double> xr, yr;
                        std::vector<cmplx_t> xc, yc;
                        cld ref = 0, h1 = 0, h2 = 0;
                        ld terms = 0;
                        for (int i = 0; i < n; ++i) {
                            const cmplx_t a = l ? cmplx_t(lcg_val(1720, (uint64_t)i) * 3, cplx ? lcg_val(1721, (uint64_t)i) : 0.0) : cmplx_t(i + 1, cplx ? -(i + 2) * 0.5 : 0.0);
                            const cmplx_t b = l ? cmplx_t(lcg_val(1722, (uint64_t)i) - 0.25, cplx ? lcg_val(1723, (uint64_t)i) : 0.0) : cmplx_t(0.5 * (n - i), cplx ? 1.0 + i : 0.0);
                            xr.push_back(a.re);
                            yr.push_back(b.re);
                            xc.push_back(a);
                            yc.push_back(b);
                            const cld ca(a.re, a.im), cb(b.re, b.im);
                            ref += ca * cb;
                            h1 += std::conj(ca) * cb;
                            h2 += ca * std::conj(cb);
                            terms += (fabsl(ca.real()) + fabsl(ca.imag())) * (fabsl(cb.real()) + fabsl(cb.imag()));
                        }
                        const cmplx_t g = cplx ? d::dot(build_c(xc, sx), build_c(yc, sy)) : cmplx_t(d::dot(build_r(xr, sx), build_r(yr, sy)), 0);
                        const double t = (n + 8) * EPS * (double)terms;
                        const cld cg(g.re, g.im);
                        const double e = std::min((double)std::abs(cg - ref), std::min((double)std::abs(cg - h1), (double)std::abs(cg - h2)));
                        if (t > 0 && e <= t) ctx.worst("dot sweep err/tol (passing cases)", e / t);
                        if (!(e <= t)) ctx.fail("dot", fmt("dot=%s (n=%d)", cs(g).c_str(), n), cs(ref) + fmt(" +- %.3g", t));
                    }
}

// Binary functions called with ONE OBJECT as both operands: the result must not depend on whether the two operands are the
// same object or equal-valued separate arrays (dot(x, x), power(x, x), complex(x, x)); the value itself is judged as for two
// different arrays (dot: sum x[i]*x[i] without conjugate is the library's convention; the Hermitian forms stay accepted for
// the value, but the aliased and the non-aliased call must agree).
static void run_aliased(Ctx& ctx) {
    std::vector<int> ns;
    for (int n = 0; n <= 64; ++n) ns.push_back(n);
    for (int n : {65, 127, 129, 1001, 65537}) ns.push_back(n);
    for (int n : ns)
        for (int cplx = 0; cplx < 2; ++cplx)
            for (int l = 0; l < 2; ++l)
                for (int st = 0; st < 3; ++st) {
                    if (!ctx.take("reduce.dot.alias", P().kv("type", cplx ? "cmplx" : "real").kv("n", n).kv("letter", l ? "lcg" : "index").kv("storage", STN[st]))) continue;
                    if (n >= 1) ctx.nontrivial();
                    std::vector<double> xr;
                    std::vector<cmplx_t> xc;
                    cld ref = 0, herm = 0;
                    ld terms = 0;
                    for (int i = 0; i < n; ++i) {
                        const cmplx_t a = l ? cmplx_t(lcg_val(1730, (uint64_t)i) * 3, cplx ? lcg_val(1731, (uint64_t)i) * 2 : 0.0) : cmplx_t(0.5 * (i + 1), cplx ? 1.0 + (i % 5) : 0.0);
                        xr.push_back(a.re);
                        xc.push_back(a);
                        const cld ca(a.re, a.im);
                        ref += ca * ca;
                        herm += std::conj(ca) * ca;
                        terms += (fabsl(ca.real()) + fabsl(ca.imag())) * (fabsl(ca.real()) + fabsl(ca.imag()));
                    }
                    const double t = (n + 8) * EPS * (double)terms;
                    cmplx_t ga, gc;
                    if (cplx) {
                        const arr_cmplx X = build_c(xc, st), X2 = build_c(xc, st);
                        ga = d::dot(X, X);
                        gc = d::dot(X, X2);
                    } else {
                        const arr_real X = build_r(xr, st), X2 = build_r(xr, st);
                        ga = cmplx_t(d::dot(X, X), 0);
                        gc = cmplx_t(d::dot(X, X2), 0);
                    }
                    const cld ca(ga.re, ga.im), cc(gc.re, gc.im);
                    const double ea = std::min((double)std::abs(ca - ref), (double)std::abs(ca - herm)), ec = std::min((double)std::abs(cc - ref), (double)std::abs(cc - herm));
                    if (!(ea <= t)) ctx.fail("dot", fmt("dot(x,x) (one object)=%s (n=%d)", cs(ga).c_str(), n), cs(ref) + fmt(" +- %.3g", t), P().kv("what", "value"));
                    if (!(ec <= t)) ctx.fail("dot", fmt("dot(x,copy of x)=%s (n=%d)", cs(gc).c_str(), n), cs(ref) + fmt(" +- %.3g", t), P().kv("what", "value-copy"));
                    if (!((double)std::abs(ca - cc) <= 2 * t))
                        ctx.fail("dot", fmt("dot(x,x) with one object = %s but with an equal-valued copy = %s (n=%d)", cs(ga).c_str(), cs(gc).c_str(), n), "the same value (sum x[i]*x[i])", P().kv("what", "alias"));
                }
    // power(x, x) for real arrays (positive base) and complex(x, x)
    for (int n : ns)
        for (int st = 0; st < 3; ++st) {
            if (!ctx.take("alias.power_complex", P().kv("n", n).kv("storage", STN[st]))) continue;
            if (n >= 1) ctx.nontrivial();
            std::vector<double> xr;
            for (int i = 0; i < n; ++i) xr.push_back(0.5 + 0.25 * (i % 11));
            const arr_real X = build_r(xr, st), X2 = build_r(xr, st);
            const arr_real pa = d::power(X, X), pc = d::power(X, X2);
            if (!bitsame(pa, pc)) ctx.fail("power", fmt("power(x,x) with one object differs from power(x,copy) (n=%d)", n), "identical", P().kv("what", "alias"));
            bool ok = pa.size() == n;
            for (int i = 0; ok && i < n; ++i) ok = units_r(pa[i], powl((ld)xr[(size_t)i], (ld)xr[(size_t)i])) <= CTOL;
            if (!ok) ctx.fail("power", fmt("power(x,x) wrong (n=%d)", n), "x[i]^x[i]", P().kv("what", "value"));
            const arr_cmplx za = d::complex(X, X), zc = d::complex(X, X2);
            ok = za.size() == n && bitsame(za, zc);
            for (int i = 0; ok && i < n; ++i) ok = biteq(za[i].re, xr[(size_t)i]) && biteq(za[i].im, xr[(size_t)i]);
            if (!ok) ctx.fail("complex", fmt("complex(x,x) with one object wrong (n=%d)", n), "x[i] + i x[i]", P().kv("what", "alias"));
        }
}

// ASan + UBSan pass over a reduced grid: every reduction, every element-wise array overload and the shape functions on
// EXACT-FIT arrays of every length 0..64 (+ 255, 1000), each length in a forked child: a read or write past the end of
// an array is reported by the sanitizer and becomes a violation of that case.  Values are checked in the main pass.
static void run_asan_pass(Ctx& ctx) {
    std::vector<int> ns;
    for (int n = 0; n <= 64; ++n) ns.push_back(n);
    ns.push_back(255);
    ns.push_back(1000);
    for (int n : ns) {
        if (!ctx.take("asan.reduced", P().kv("n", n))) continue;
        forked(ctx, "reductions / element-wise / shape functions (sanitizer pass)", 60.0, [&](ChildCtx& c) {
            std::vector<double> vr, wr;
            std::vector<cmplx_t> vc, wc;
            for (int i = 0; i < n; ++i) {
                vr.push_back(0.25 * (i % 7) + 0.5);
                wr.push_back(1.0 - 0.125 * (i % 5));
                vc.push_back(cmplx_t(0.25 * (i % 7) + 0.5, -0.5 * (i % 3)));
                wc.push_back(cmplx_t(1.0 - 0.125 * (i % 5), 0.75));
            }
            const arr_real xr = build_r(vr, EXACT), yr = build_r(wr, EXACT);
            const arr_cmplx xc = build_c(vc, EXACT), yc = build_c(wc, EXACT);
            volatile double sink = 0;
            auto use = [&](double v) { sink = sink + v; ++c.evals; };
            auto user = [&](const arr_real& a) { use(a.size() ? a[a.size() - 1] : 0.0); };
            auto usec = [&](const arr_cmplx& a) { use(a.size() ? a[a.size() - 1].im : 0.0); };
            // reductions
            fb::label("reductions");
            use(d::sum(xr)); use(d::sum(xc).re); use(d::dot(xr, yr)); use(d::dot(xc, yc).im);
            user(d::cumsum(xr)); user(d::cumsum(xr, d::Direction::Reverse)); usec(d::cumsum(xc)); usec(d::cumsum(xc, d::Direction::Reverse));
            for (int p : {1, 2, 3, 8}) { use(d::norm(xr, p)); use(d::norm(xc, p)); }
            if (n >= 1) {
                use(d::mean(xr)); use(d::mean(xc).re); use(d::rms(xr)); use(d::rms(xc));
                use(d::max(xr)); use(d::min(xr)); use(d::max(xc).re); use(d::min(xc).re);
                use(d::argmax(xr)); use(d::argmin(xr)); use(d::argmax(xc)); use(d::argmin(xc));
                use(d::peak2peak(xr)); use(d::peak2peak(xc).re);
            }
            if (n >= 2) { use(d::stddev(xr)); use(d::stddev(xc)); }
            // element-wise array overloads
            fb::label("element-wise");
            user(d::abs(xr)); user(d::abs(xc)); user(d::abs2(xr)); user(d::abs2(xc)); user(d::angle(xc));
            user(d::exp(xr)); usec(d::exp(xc)); usec(d::expj(xr)); user(d::log(xr)); user(d::log2(xr)); user(d::log10(xr));
            user(d::tanh(xr)); usec(d::tanh(xc)); user(d::round(xr)); usec(d::round(xc));
            user(d::pow2db(xr)); user(d::db2pow(xr)); user(d::mag2db(xr)); user(d::db2mag(xr)); user(d::deg2rad(xr)); user(d::rad2deg(xr));
            user(d::real(xc)); user(d::imag(xc)); usec(d::conj(xc)); usec(d::complex(xr, yr)); usec(d::complex(xr));
            user(d::power(xr, yr)); user(d::power(xr, 2.5)); user(d::power(xr, 3)); user(d::power(2.0, xr));
            usec(d::power(xc, yr)); usec(d::power(xc, 2.5)); usec(d::power(xc, 3)); usec(d::power(cmplx_t(1, 1), xr));
            // shape functions
            fb::label("shapes");
            for (int f : {1, 2, 3}) {
                for (int ph = 0; ph < f; ++ph) {
                    user(d::upsample(xr, f, ph)); usec(d::upsample(xc, f, ph));
                    if (ph < n) { user(d::downsample(xr, f, ph)); usec(d::downsample(xc, f, ph)); }
                }
                user(d::repelem(xr, f)); usec(d::repelem(xc, f));
            }
            user(d::flip(xr)); usec(d::flip(xc)); user(d::zeropad(xr, n + 3)); usec(d::zeropad(xc, n + 3));
            for (int dl : {-n - 1, -n, -1, 0, 1, n / 2, n, n + 1}) { user(d::delayseq(xr, dl)); usec(d::delayseq(xc, dl)); }
            if (n >= 1) user(d::linspace(-1.0, 2.0, (size_t)n));
            user(d::arange(0, n, 1)); user(d::arange(0, n, 3)); user(d::arange(n, 0, -2)); user(d::arange(n)); user(d::arange(0.0, 0.25 * n, 0.25));
            if (n >= 2) c.nontriv = 1;
        });
    }
}

int main(int argc, char** argv) {
    Ctx ctx;
    ctx.parse(argc, argv, "C17");
    g_thorough = ctx.thorough();
    for (int i = 1; i < argc; ++i)
        if (!strcmp(argv[i], "--asan-pass")) g_asan = true;
    if (g_asan) {
        run_asan_pass(ctx);
        return ctx.finish();
    }
    run_real_unary(ctx);
    run_angle(ctx);
    run_complex_unary(ctx);
    run_power(ctx);
    run_reductions(ctx);
    run_dot_sweep(ctx);
    run_aliased(ctx);
    run_shapes(ctx);
    return ctx.finish();
}
