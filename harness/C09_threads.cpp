// C09 - concurrent use from several threads is race-free and result-preserving.
// Engine E3 (schedex): the library and this file are compiled with clang's ThreadSanitizer
// *instrumentation* and linked against engine/schedex/vrt.cpp, our own runtime: a serialising scheduler
// (iterative context bounding over all scheduling points: thread start/end, operation boundaries, atomics,
// static-init guards, mutexes) plus a vector-clock happens-before race detector on every instrumented access.
// Every execution is a run of the real code in a forked child; the explorer enumerates all schedules with at
// most B preemptions.  With -DVRT_FREE_RUN the same bodies run free on std::thread under stock TSan.
#include "vf.hpp"
#ifndef VRT_FREE_RUN
#include "forkbox.hpp"
#include "schedex/vrt.h"
#else
#include <thread>
namespace vrt {
inline void op(const char*) {}
}
#endif
#include <memory>
#include <tuple>
#include <xmmintrin.h>
static inline unsigned vf_x87cw() {   // x87 control word (rounding / precision control of long double arithmetic)
    unsigned short cw;
    __asm__ __volatile__("fnstcw %0" : "=m"(cw));
    return cw;
}

using namespace vf;
using namespace dsplib;

// ------------------------------------------------------------------ result hashing
static uint64_t hbytes(const void* p, size_t n, uint64_t h = 1469598103934665603ULL) {
    const unsigned char* b = (const unsigned char*)p;
    for (size_t i = 0; i < n; ++i) {
        h ^= b[i];
        h *= 1099511628211ULL;
    }
    return h;
}
static uint64_t H(const arr_cmplx& a) { return hbytes(a.data(), (size_t)a.size() * sizeof(cmplx_t), mix(7, (uint64_t)a.size())); }
static uint64_t H(const arr_real& a) { return hbytes(a.data(), (size_t)a.size() * sizeof(real_t), mix(9, (uint64_t)a.size())); }
static uint64_t H(const arr_int& a) { return hbytes(a.data(), (size_t)a.size() * sizeof(int), mix(11, (uint64_t)a.size())); }

static arr_real rletter(int n, uint64_t tag) {
    arr_real x(n);
    for (int i = 0; i < n; ++i) x[i] = lcg_val(tag, (uint64_t)i);
    return x;
}
static arr_cmplx cletter(int n, uint64_t tag) {
    arr_cmplx x(n);
    for (int i = 0; i < n; ++i) x[i] = cmplx_t(lcg_val(tag, (uint64_t)i), lcg_val(tag + 77, (uint64_t)i));
    return x;
}

// ------------------------------------------------------------------ scenarios
struct Op {
    std::string label;
    std::function<uint64_t()> fn;
};
struct Scenario {
    std::string name;
    std::function<void()> setup;               // builds shared objects (managed thread 0)
    std::vector<std::vector<Op>> prog;         // one program per thread
    int bound = 2;                             // preemption bound explored
    int fbound = -1;                           // bound on departures from the canonical thread order at points where the running thread cannot continue (-1: unbounded)
};

template<class PlanT>
static Scenario shared_plan(const std::string& nm, std::function<std::shared_ptr<PlanT>()> mk,
                            std::function<uint64_t(const PlanT&, int thread, int call)> use, int nthreads, int ncalls) {
    Scenario s;
    s.name = nm;
    auto holder = std::make_shared<std::shared_ptr<PlanT>>();
    s.setup = [holder, mk] { *holder = mk(); };
    for (int t = 0; t < nthreads; ++t) {
        std::vector<Op> p;
        for (int c = 0; c < ncalls; ++c)
            p.push_back(Op{fmt("solve#%d", c), [holder, use, t, c] { return use(**holder, t, c); }});
        s.prog.push_back(p);
    }
    return s;
}

static std::vector<Scenario> make_scenarios(bool thorough) {
    std::vector<Scenario> S;
    // ---- H1: one plan object of every kind shared between threads (const solve must be safe)
    struct K {
        const char* kind;
        int n;
    };
    for (K k : {K{"small", 4}, K{"pow2", 16}, K{"prime-direct", 7}, K{"prime-bluestein", 53}, K{"factor", 12},
                K{"factor-depth2", 60}, K{"factor-odd", 45}}) {
        for (int nt : {2, 3}) {
            if (nt == 3 && !(k.n == 16 || k.n == 60 || k.n == 53)) continue;
            const int n = k.n;
            S.push_back(shared_plan<FftPlan>(
                fmt("H1.FftPlan(%d,%s).t%d", n, k.kind, nt), [n] { return std::make_shared<FftPlan>(n); },
                [n](const FftPlan& p, int t, int c) { return H(p.solve(cletter(n, 100 + 10 * t + c))); }, nt, nt == 2 ? 2 : 1));
        }
    }
    // a big composite plan (size-dependent paths such as a retained scratch buffer only exist from some length on)
    S.push_back(shared_plan<FftPlan>(
        "H1.FftPlan(6000,factor-big).t2", [] { return std::make_shared<FftPlan>(6000); },
        [](const FftPlan& p, int t, int c) { return H(p.solve(cletter(6000, 900 + 10 * t + c))); }, 2, 2));
    for (K k : {K{"pow2", 16}, K{"even-composite", 30}, K{"odd-composite", 15}, K{"prime", 13}}) {
        const int n = k.n;
        S.push_back(shared_plan<FftPlanR>(
            fmt("H1.FftPlanR(%d,%s).t2", n, k.kind), [n] { return std::make_shared<FftPlanR>(n); },
            [n](const FftPlanR& p, int t, int c) { return H(p.solve(rletter(n, 200 + 10 * t + c))); }, 2, 2));
    }
    for (int n : {12, 16}) {
        S.push_back(shared_plan<IfftPlan>(
            fmt("H1.IfftPlan(%d).t2", n), [n] { return std::make_shared<IfftPlan>(n); },
            [n](const IfftPlan& p, int t, int c) { return H(p.solve(cletter(n, 300 + 10 * t + c))); }, 2, 2));
    }
    S.push_back(shared_plan<IfftPlanR>(
        "H1.IfftPlanR(24).t2", [] { return std::make_shared<IfftPlanR>(24); },
        [](const IfftPlanR& p, int t, int c) { return H(p.solve(cletter(13, 400 + 10 * t + c))); }, 2, 2));
    S.push_back(shared_plan<CztPlan>(
        "H1.CztPlan(5,7).t2", [] { return std::make_shared<CztPlan>(5, 7, expj(-2 * pi / 7), cmplx_t(1, 0)); },
        [](const CztPlan& p, int t, int c) { return H(p.solve(cletter(5, 500 + 10 * t + c))); }, 2, 2));

    // ---- H2: free functions on private data (per-thread plan caches, function-local statics)
    auto free_fn = [&](const std::string& nm, std::vector<std::vector<Op>> prog, int bound) {
        Scenario s;
        s.name = nm;
        s.setup = [] {};
        s.prog = std::move(prog);
        s.bound = bound;
        S.push_back(s);
    };
    {
        auto fftop = [](int n, uint64_t tag) { return Op{fmt("fft(%d)", n), [n, tag] { return H(fft(cletter(n, tag))); }}; };
        auto rfftop = [](int n, uint64_t tag) { return Op{fmt("rfft(%d)", n), [n, tag] { return H(rfft(rletter(n, tag))); }}; };
        auto ifftop = [](int n, uint64_t tag) { return Op{fmt("ifft(%d)", n), [n, tag] { return H(ifft(cletter(n, tag))); }}; };
        auto irfftop = [](int n, uint64_t tag) {
            return Op{fmt("irfft(%d)", n), [n, tag] { return H(irfft(cletter(n / 2 + 1, tag), n)); }};
        };
        // five distinct lengths per thread: more than the cache holds, shared prime sub-plans
        free_fn("H2.fft-mix.t2", {{fftop(16, 1), fftop(12, 2), fftop(7, 3), fftop(60, 4), fftop(53, 5)},
                                  {fftop(60, 6), fftop(9, 7), fftop(16, 8), fftop(45, 9), fftop(12, 10)}}, 1);
        free_fn("H2.rfft-mix.t2", {{rfftop(16, 11), rfftop(30, 12), rfftop(13, 13), ifftop(12, 14), irfftop(24, 15)},
                                   {irfftop(24, 16), rfftop(15, 17), ifftop(16, 18), rfftop(30, 19), fftop(7, 20)}}, 1);
        free_fn("H2.irfft-lengths.t3", {{irfftop(12, 24), irfftop(20, 25)}, {irfftop(14, 26), irfftop(24, 27)},
                                        {Op{"IfftPlanR(16)", [] { IfftPlanR p(16); return H(p.solve(cletter(9, 28))); }}, irfftop(10, 29)}}, 1);
        free_fn("H2.fft-four-threads.t4", {{fftop(12, 61), rfftop(30, 62)}, {fftop(60, 63), irfftop(20, 64)}, {rfftop(15, 65), fftop(53, 66)}, {ifftop(45, 67), fftop(12, 68)}}, 1);
        // more real lengths than a plan cache holds, the last thread inserting a new one while another looks up an old one:
        // a cache that became shared behind per-method locks (exists ... get is not atomic) fails exactly here
        free_fn("H2.rfft-evict.t4", {{rfftop(12, 91)}, {rfftop(14, 92), rfftop(18, 93), rfftop(20, 94)}, {rfftop(12, 95)}, {rfftop(22, 96)}}, 2);
        free_fn("H2.fft-evict.t4", {{fftop(12, 97)}, {fftop(9, 98), fftop(15, 99), fftop(20, 100)}, {ifftop(12, 101)}, {fftop(21, 102)}}, 2);
        // "any number of threads": nine threads, one transform each (a table of per-thread state indexed modulo a small number,
        // a fixed-size pool of scratch buffers ... only collides beyond eight threads); the race detector needs no preemption for it
        free_fn("H2.fft-nine-threads.t9",
                {{fftop(12, 111)}, {fftop(12, 112)}, {rfftop(12, 113)}, {fftop(9, 114)}, {ifftop(12, 115)}, {fftop(12, 116)}, {rfftop(14, 117)}, {fftop(12, 118)}, {fftop(12, 119)}}, 0);
        S.back().fbound = 1;   // 9! thread orders otherwise: the canonical order and every order one departure away from it
        free_fn("H2.fft-same-length.t3", {{fftop(12, 21)}, {fftop(12, 22)}, {rfftop(12, 23)}}, 2);
        free_fn("H2.xcorr-fftfilter.t2",
                {{Op{"xcorr", [] { return H(xcorr(rletter(20, 31), rletter(9, 32))); }},
                  Op{"FftFilter", [] {
                         FftFilter f(rletter(9, 33));
                         return H(f.process(rletter(64, 34)));
                     }}},
                 {Op{"FftFilter", [] {
                         FftFilter f(rletter(9, 35));
                         return H(f.process(rletter(64, 36)));
                     }},
                  Op{"xcorr", [] { return H(xcorr(cletter(12, 37), cletter(12, 38))); }}}}, 1);
        free_fn("H2.welch-resample.t2",
                {{Op{"welch", [] { return H(welch(rletter(64, 41), 16).pxx); }},
                  Op{"resample", [] { return H(resample(rletter(24, 42), 3, 2)); }}},
                 {Op{"resample", [] { return H(resample(rletter(24, 43), 2, 3)); }},
                  Op{"welch", [] { return H(welch(cletter(64, 44), 16).pxx); }}}}, 1);
        // the same estimator with different sizes in two threads (a function-local static work buffer / grid shared by all threads)
        free_fn("H2.welch-two-sizes.t2",
                {{Op{"welch(nfft 16)", [] { auto r = welch(rletter(64, 111), 16); return mix(H(r.pxx), H(r.f)); }}, Op{"mscohere(16)", [] { return H(mscohere(rletter(64, 112), rletter(64, 113), 16)); }}},
                 {Op{"welch(nfft 32)", [] { auto r = welch(rletter(96, 114), 32); return mix(H(r.pxx), H(r.f)); }}, Op{"mscohere(32)", [] { return H(mscohere(rletter(96, 115), rletter(96, 116), 32)); }}}}, 2);
        // three different window lengths in three threads (a small table of "recent" default windows / designs shared by all threads:
        // the entry one thread is still reading is recycled once two other sizes have been requested)
        free_fn("H2.welch-three-sizes.t3",
                {{Op{"welch(16)", [] { auto r = welch(rletter(64, 131), 16); return mix(H(r.pxx), H(r.f)); }}},
                 {Op{"welch(24)", [] { auto r = welch(rletter(96, 132), 24); return mix(H(r.pxx), H(r.f)); }}},
                 {Op{"welch(32)", [] { auto r = welch(rletter(96, 133), 32); return mix(H(r.pxx), H(r.f)); }}, Op{"welch(cmplx,20)", [] { return H(welch(cletter(64, 134), 20).pxx); }}}}, 1);
        free_fn("H2.corr-sort.t2",
                {{Op{"corr kendall(9)", [] { return (uint64_t)(1e12 * corr(rletter(9, 117), rletter(9, 118), Correlation::Kendall)); }}, Op{"sort/median(11)", [] { auto r = sort(rletter(11, 119)); return mix(H(r.first), (uint64_t)(1e12 * median(rletter(11, 120)))); }},
                  Op{"corr spearman(9)", [] { return (uint64_t)(1e12 * corr(rletter(9, 121), rletter(9, 122), Correlation::Spearman)); }}},
                 {Op{"corr kendall(14)", [] { return (uint64_t)(1e12 * corr(rletter(14, 123), rletter(14, 124), Correlation::Kendall)); }}, Op{"medfilt(20,5)", [] { auto x = rletter(20, 125); return H(medfilt(x, 5)); }},
                  Op{"corr spearman(14)", [] { return (uint64_t)(1e12 * corr(rletter(14, 126), rletter(14, 127), Correlation::Spearman)); }}}}, 2);
        // broad coverage of the remaining free functions: the same function with different sizes / parameters in two threads
        free_fn("H2.measure-windows.t2",
                {{Op{"snr/thd(256)", [] { arr_real x(256); for (int i = 0; i < 256; ++i) x[i] = std::sin(2 * pi * 20.3 * i / 256) + 1e-3 * lcg_val(131, (uint64_t)i); return mix((uint64_t)(1e9 * snr(x)), (uint64_t)(1e9 * thd(x).value)); }},
                  Op{"windows(16)", [] { return mix(mix(H(window::hann(16)), H(window::tukey(16, 0.5))), mix(H(window::gauss(16, 2.5)), H(window::blackman(16)))); }},
                  Op{"gccphat(64)", [] { auto x = rletter(64, 132); return (uint64_t)(1e9 * gccphat(delayseq(x, 5), x, 8000).tau); }}},
                 {Op{"snr/thd(300)", [] { arr_real x(300); for (int i = 0; i < 300; ++i) x[i] = std::sin(2 * pi * 31.7 * i / 300) + 1e-3 * lcg_val(133, (uint64_t)i); return mix((uint64_t)(1e9 * snr(x)), (uint64_t)(1e9 * thd(x).value)); }},
                  Op{"windows(23)", [] { return mix(mix(H(window::hann(23)), H(window::tukey(23, 0.3))), mix(H(window::gauss(23, 1.5)), H(window::blackman(23)))); }},
                  Op{"gccphat(100)", [] { auto x = rletter(100, 134); return (uint64_t)(1e9 * gccphat(delayseq(x, -7), x, 8000).tau); }}}}, 2);
        free_fn("H2.elementary-shape.t2",
                {{Op{"upsample/cumsum(12)", [] { auto x = rletter(12, 135); return mix(mix(H(upsample(x, 3, 1)), H(cumsum(x))), mix(H(downsample(x, 2)), H(repelem(x, 2)))); }},
                  Op{"power/exp(9)", [] { auto z = cletter(9, 136); return mix(mix(H(power(z, 2.5)), H(exp(z))), mix(H(angle(z)), H(abs(z)))); }},
                  Op{"czt/istft", [] { auto x = rletter(40, 137); return mix(H(czt(cletter(9, 138), 11, expj(-2 * pi / 13), cmplx_t(0.9, 0.2))), H(istft(stft(x, 8), 8))); }}},
                 {Op{"upsample/cumsum(8)", [] { auto x = rletter(8, 139); return mix(mix(H(upsample(x, 2, 0)), H(cumsum(x))), mix(H(downsample(x, 3)), H(repelem(x, 3)))); }},
                  Op{"power/exp(14)", [] { auto z = cletter(14, 140); return mix(mix(H(power(z, -2)), H(exp(z))), mix(H(angle(z)), H(abs(z)))); }},
                  Op{"czt/istft", [] { auto x = rletter(56, 141); return mix(H(czt(cletter(7, 142), 9, expj(-2 * pi / 11), cmplx_t(1, 0))), H(istft(stft(x, 16), 16))); }}}}, 2);
        // calls that are REJECTED (they throw single-threaded, so they must throw the same thing concurrently): the error path is
        // shared code too (message buffers, error counters); the exception's text is the operation's outcome
        {
            auto bad = [](int v) {
                return std::vector<Op>{
                    Op{"plan on wrong length", [v] { FftPlan p(v ? 12 : 16); return H(p.solve(cletter(v ? 13 : 15, 171))); }},
                    Op{"irfft odd / slice out of range", [v] { uint64_t h = 0; try { h = H(irfft(cletter(7, 172), v ? 13 : 11)); } catch (const std::exception& e) { for (const char* c = e.what(); *c; ++c) h = mix(h, (uint64_t)(unsigned char)*c); }
                                                                auto x = rletter(8, 173); return mix(h, H(arr_real(x.slice(v ? 9 : 10, 3)))); }},
                    Op{"array length mismatch", [v] { auto a = rletter(v ? 3 : 4, 174); auto b = rletter(v ? 2 : 5, 175); return H(a + b); }},
                    Op{"valid call afterwards", [v] { return H(fft(cletter(v ? 12 : 16, 176))); }}};
            };
            free_fn("H2.rejected-calls.t2", {bad(0), bad(1)}, 2);
        }
        // both threads READ the same input arrays (arguments are const references: sharing them between threads is legal)
        {
            Scenario sc;
            sc.name = "H2.shared-inputs.t2";
            auto xc = std::make_shared<arr_cmplx>();
            auto xr = std::make_shared<arr_real>();
            sc.setup = [xc, xr] {
                *xc = cletter(24, 181);
                *xr = rletter(30, 182);
            };
            auto prog = [xc, xr](int v) {
                return std::vector<Op>{Op{"ifft(shared x)", [xc] { return H(ifft(*xc)); }}, Op{"fft(shared x)", [xc] { return H(fft(*xc)); }},
                                       Op{"rfft/hilbert(shared r)", [xr] { return mix(H(rfft(*xr)), H(hilbert(*xr))); }},
                                       Op{v ? "xcorr/sort(shared r)" : "resample/welch(shared r)", [xr, v] { return v ? mix(H(xcorr(*xr, *xr)), H(sort(*xr).first)) : mix(H(resample(*xr, 3, 2)), H(welch(*xr, 8).pxx)); }}};
            };
            sc.prog = {prog(0), prog(1)};
            sc.bound = 2;
            S.push_back(sc);
        }
        free_fn("H2.kaiser-fir1.t2",
                {{Op{"kaiser", [] { return H(window::kaiser(16, 5.0)); }}, Op{"fir1", [] { return H(fir1(12, 0.3)); }}},
                 {Op{"kaiser", [] { return H(window::kaiser(9, 2.0)); }},
                  Op{"fir1", [] { return H(fir1(8, 0.2, 0.5, FilterType::Bandpass)); }}}}, 2);
        free_fn("H2.kaiser-first-use.t3", {{Op{"kaiser", [] { return H(window::kaiser(8, 3.0)); }}},
                                           {Op{"kaiser", [] { return H(window::kaiser(8, 4.0)); }}},
                                           {Op{"kaiser", [] { return H(window::kaiser(7, 1.0)); }}}}, 2);
        free_fn("H2.hilbert-stft.t2",
                {{Op{"hilbert", [] { return H(hilbert(rletter(24, 51))); }},
                  Op{"primes", [] { return H(primes(200)) ^ (uint64_t)isprime(65537) ^ H(factor(360360)); }}},
                 {Op{"stft", [] {
                         auto s = stft(rletter(64, 52), 16);
                         uint64_t h = 1;
                         for (auto& f : s) h = mix(h, H(f));
                         return h;
                     }},
                  Op{"finddelay", [] { return (uint64_t)finddelay(rletter(40, 53), rletter(40, 54)); }}}}, 1);
    }
    // primes helpers with arguments beyond the built-in table (isprime of numbers > 251^2 generates primes on the fly)
    free_fn("H2.primes-large.t3",
            {{Op{"isprime(65537)", [] { return (uint64_t)isprime(65537) ^ H(factor(67591)); }}},
             {Op{"nextprime(65530)", [] { return (uint64_t)nextprime(65530) ^ (uint64_t)isprime(4294967291u); }}},
             {Op{"primes(70000)", [] { return H(primes(70000)) ^ H(factor(600851475u)); }}}}, 2);
    free_fn("H2.fft-large-prime-factor.t2",
            {{Op{"fft(514=2*257)", [] { return H(fft(cletter(514, 55))); }}}, {Op{"rfft(263)", [] { return H(rfft(rletter(263, 56))); }}}}, 2);
    // big lengths (a size-dependent shortcut - shared tables, a process-wide plan slot - would only be taken here):
    // two threads plan the same big length while a third plans a different one
    {
        auto bigfft = [](int n, uint64_t tag) { return Op{fmt("fft(%d)", n), [n, tag] { return H(fft(cletter(n, tag))); }}; };
        free_fn("H2.fft-big-lengths.t3", {{bigfft(4096, 81)}, {bigfft(4096, 82)}, {bigfft(8192, 83)}}, 2);
        free_fn("H2.fft-big-mixed.t2", {{bigfft(4096, 84), Op{"rfft(8192)", [] { return H(rfft(rletter(8192, 85))); }}},
                                        {bigfft(6144, 86), bigfft(4096, 87)}}, 1);
    }
    // ---- H3: random state is per thread
    free_fn("H3.rng.t2",
            {{Op{"rng(1)", [] {
                     rng(1);
                     return (uint64_t)1;
                 }},
              Op{"randn(2)", [] { return H(randn(2)); }}, Op{"rand(1)", [] { return H(dsplib::rand(1)); }}},
             {Op{"rng(2)", [] {
                     rng(2);
                     return (uint64_t)2;
                 }},
              Op{"randi", [] { return H(randi({0, 9}, 2)); }},
              Op{"awgn", [] { return H(awgn(rletter(4, 61), 10)); }}}}, 2);
    free_fn("H3.rng-default-seed.t3", {{Op{"randn(3)", [] { return H(randn(3)); }}},
                                       {Op{"rand(3)", [] { return H(dsplib::rand(3)); }}},
                                       {Op{"rng(7);randi", [] {
                                               rng(7);
                                               return H(randi(100, 3));
                                           }}}}, 2);
    // ---- H4: distinct stateful objects used from different threads
    {
        Scenario s;
        s.name = "H4.distinct-objects.t2";
        auto fir = std::make_shared<std::shared_ptr<FirFilterR>>();
        auto med = std::make_shared<std::shared_ptr<MedianFilter>>();
        auto agc = std::make_shared<std::shared_ptr<Agc>>();
        auto rs = std::make_shared<std::shared_ptr<FIRResampler>>();
        s.setup = [=] {
            *fir = std::make_shared<FirFilterR>(rletter(5, 71));
            *med = std::make_shared<MedianFilter>(5);
            *agc = std::make_shared<Agc>(1.0, 60.0, 10);
            *rs = std::make_shared<FIRResampler>(3, 2);
        };
        s.prog = {{Op{"fir#0", [=] { return H((*fir)->process(rletter(16, 72))); }},
                   Op{"agc#0", [=] { return H((*agc)->process(rletter(16, 73)).out); }},
                   Op{"fir#1", [=] { return H((*fir)->process(rletter(7, 74))); }}},
                  {Op{"med#0", [=] { return H((*med)->process(rletter(16, 75))); }},
                   Op{"resamp#0", [=] { return H((*rs)->process(rletter(16, 76))); }},
                   Op{"med#1", [=] { return H((*med)->process(rletter(7, 77))); }}}};
        s.bound = 2;
        S.push_back(s);
    }
    {
        // every thread builds and uses its own objects of the remaining stateful classes, with different parameters
        auto objs = [](int v) {
            return std::vector<Op>{
                Op{"Compressor/Limiter", [v] { Compressor c(8000, v ? -30.0 : -6.0, 4, v ? 0.0 : 6.0, 0.001, 0.01); Limiter l(8000, v ? -20.0 : -3.0, v ? 0.0 : 4.0, 0.0, 0.002); auto x = rletter(80, 150 + (uint64_t)v);
                                                 return mix(H(c.process(x).out), H(l.process(x).out)); }},
                Op{"NoiseGate/Tuner/Delay", [v] { NoiseGate g(8000, v ? -30.0 : -6.0, 0.001, 0.002, 0.002); Tuner t(8, v ? 1.25 : -2.5); Delay<real_t> d(v ? 5 : 9); auto x = rletter(60, 152 + (uint64_t)v);
                                                    return mix(mix(H(g.process(x).out), H(t.process(cletter(40, 154 + (uint64_t)v)))), H(d.process(x))); }},
                Op{"HilbertFilter/Lms/Rls", [v] { HilbertFilter h(v ? 31 : 21, 0.05); LmsFilterR f(v ? 4 : 3, 0.05, LmsType::NLMS, 0.999); RlsFilterR r(v ? 4 : 3, v ? 0.9 : 0.99, 1.0); auto x = rletter(60, 156 + (uint64_t)v);
                                                    auto dd = rletter(60, 158 + (uint64_t)v); return mix(mix(H(h.process(x)), H(f.process(x, dd).e)), H(r.process(x, dd).e)); }},
                Op{"PreambleDetector/FftFilter", [v] { auto pr = cletter(v ? 16 : 12, 160 + (uint64_t)v); PreambleDetector pd(pr, 0.5); arr_cmplx sgn((int)pd.frame_len());
                                                         for (int i = 0; i < pr.size() && 3 + i < sgn.size(); ++i) sgn[3 + i] = pr[i];
                                                         auto res = pd.process(sgn); FftFilter ff(rletter(v ? 9 : 5, 162 + (uint64_t)v)); return mix(res ? (uint64_t)res->offset + 1 : 0, H(ff.process(rletter(64, 164 + (uint64_t)v)))); }}};
        };
        free_fn("H4.own-objects-all-classes.t2", {objs(0), objs(1)}, 1);
    }
    (void)thorough;
    return S;
}

// ================================================================== free-running variant (stock TSan)
#ifdef VRT_FREE_RUN
int main(int argc, char** argv) {
    int iters = argc > 1 ? atoi(argv[1]) : 50;
    auto S = make_scenarios(true);
    for (int it = 0; it < iters; ++it) {
        for (auto& s : S) {
            s.setup();
            std::vector<std::thread> th;
            std::vector<std::vector<uint64_t>> res(s.prog.size());
            for (size_t t = 0; t < s.prog.size(); ++t)
                th.emplace_back([&, t] {
                    for (auto& o : s.prog[t]) {
                        // some scenarios contain calls the library rejects by design: an exception is an outcome here as it is
                        // under the scheduler (it must not end the pass)
                        try {
                            res[t].push_back(o.fn());
                        } catch (const std::exception&) {
                            res[t].push_back(0xE0E0E0E0ull);
                        }
                    }
                });
            for (auto& t : th) t.join();
        }
    }
    printf("free-run done: %d iterations x %zu scenarios\n", iters, S.size());
    return 0;
}
#else
// ================================================================== explorer
struct Exec {
    bool ok = false;      // child returned a complete report
    int kind = 0;         // fb kind
    std::string err;
    vrt::Outcome out;
    std::vector<std::vector<uint64_t>> res;
    double secs = 0;
};

static const uint64_t FPENV_MARK = 0xFEFEFEFE00000000ull;
static const Scenario* g_sc = nullptr;
static std::vector<std::vector<uint64_t>>* g_res = nullptr;

static std::string ser(const vrt::Outcome& o, const std::vector<std::vector<uint64_t>>& res) {
    std::ostringstream s;
    s << "O " << o.accesses << " " << o.sync_ops << " " << o.sched_points << " " << o.racy_granules << " " << (o.deadlock ? 1 : 0)
      << " " << (o.diverged ? 1 : 0) << "\n";
    if (o.deadlock) s << "D " << o.deadlock_info << "\n";
    for (auto& p : o.points)
        s << "P " << p.n_enabled << " " << p.cur_enabled << " " << p.chosen << " " << p.tid << " " << p.kind << " " << p.addr << "\n";
    for (auto a : o.shared_sync) s << "X " << a << "\n";
    for (auto& r : o.races)
        s << "R " << r.addr << " " << r.pc_prev << " " << r.pc_cur << " " << r.tid_prev << " " << r.tid_cur << " " << r.prev_write
          << " " << r.cur_write << " |" << r.where << "|" << r.op_prev << "|" << r.op_cur << "\n";
    for (size_t t = 0; t < res.size(); ++t) {
        s << "T " << t;
        for (auto v : res[t]) s << " " << v;
        s << "\n";
    }
    s << "E\n";
    return s.str();
}

static void fatal_cb(const vrt::Outcome& o) { fb::emit(ser(o, *g_res)); }

// only = -1: all threads; otherwise run only thread `only` (single-threaded reference)
static Exec run_exec(const Scenario& sc, const std::vector<int>& prefix, int only, double tmo) {
    Exec e;
    fb::Result r = fb::run(
        [&] {
            std::vector<std::vector<uint64_t>> res(sc.prog.size());
            g_res = &res;
            g_sc = &sc;
            vrt::set_fatal(fatal_cb);
            std::vector<std::function<void()>> th;
            for (size_t t = 0; t < sc.prog.size(); ++t) {
                if (only >= 0 && (int)t != only) continue;
                res[t].reserve(sc.prog[t].size());
                th.push_back([&sc, &res, t] {
                    for (auto& o : sc.prog[t]) {
                        vrt::op(o.label.c_str());
                        uint64_t h;
                        const unsigned fp0 = (_mm_getcsr() & 0xFFC0u) | (vf_x87cw() << 16);
                        try {
                            h = o.fn();
                        } catch (const std::exception& ex) {   // an outcome like any other: compared with the reference
                            h = 0xE0000000ull;
                            for (const char* c = ex.what(); *c; ++c) h = mix(h, (uint64_t)(unsigned char)*c);
                        }
                        // the operation must leave the thread's floating-point control state (rounding, FTZ, DAZ) alone
                        const unsigned fp1 = (_mm_getcsr() & 0xFFC0u) | (vf_x87cw() << 16);
                        if (fp1 != fp0) h = FPENV_MARK | (uint64_t)(fp1 & 0xFFFFFFu);
                        res[t].push_back(h);
                    }
                });
            }
            vrt::Outcome o = vrt::run(sc.setup, th, prefix);
            fb::emit(ser(o, res));
        },
        tmo);
    e.kind = r.kind;
    e.secs = r.secs;
    e.err = r.err.substr(0, 400);
    std::istringstream in(r.out);
    std::string line;
    bool end = false;
    while (std::getline(in, line)) {
        std::istringstream ls(line);
        char tag;
        ls >> tag;
        if (tag == 'O') {
            int d, v;
            ls >> e.out.accesses >> e.out.sync_ops >> e.out.sched_points >> e.out.racy_granules >> d >> v;
            e.out.deadlock = d;
            e.out.diverged = v;
        } else if (tag == 'D') {
            e.out.deadlock_info = line.substr(2);
        } else if (tag == 'P') {
            vrt::Point p;
            ls >> p.n_enabled >> p.cur_enabled >> p.chosen >> p.tid >> p.kind >> p.addr;
            e.out.points.push_back(p);
        } else if (tag == 'X') {
            uint64_t a;
            ls >> a;
            e.out.shared_sync.push_back(a);
        } else if (tag == 'R') {
            vrt::Race rc;
            ls >> rc.addr >> rc.pc_prev >> rc.pc_cur >> rc.tid_prev >> rc.tid_cur >> rc.prev_write >> rc.cur_write;
            size_t b = line.find('|');
            if (b != std::string::npos) {
                std::string rest = line.substr(b + 1);
                size_t b2 = rest.find('|'), b3 = rest.find('|', b2 + 1);
                rc.where = rest.substr(0, b2);
                rc.op_prev = rest.substr(b2 + 1, b3 - b2 - 1);
                rc.op_cur = rest.substr(b3 + 1);
            }
            e.out.races.push_back(rc);
        } else if (tag == 'T') {
            size_t t;
            ls >> t;
            if (e.res.size() <= t) e.res.resize(t + 1);
            uint64_t v;
            while (ls >> v) e.res[t].push_back(v);
        } else if (tag == 'E') {
            end = true;
        }
    }
    e.ok = end && r.kind == fb::RETURNED;
    return e;
}

static std::string symbolize(uint32_t pc) {
    static std::map<uint32_t, std::string> cache;
    auto it = cache.find(pc);
    if (it != cache.end()) return it->second;
    char cmd[256], buf[512];
    snprintf(cmd, sizeof cmd, "llvm-symbolizer --obj=/proc/%d/exe --functions=short --no-inlines 0x%x 2>/dev/null", (int)getpid(),
             pc ? pc - 1 : 0);
    FILE* f = popen(cmd, "r");
    if (!f) return "?";
    std::string fn, loc;
    if (fgets(buf, sizeof buf, f)) fn = buf;
    if (fgets(buf, sizeof buf, f)) loc = buf;
    pclose(f);
    while (!fn.empty() && (fn.back() == '\n')) fn.pop_back();
    while (!loc.empty() && (loc.back() == '\n')) loc.pop_back();
    size_t sl = loc.rfind('/');
    if (sl != std::string::npos) loc = loc.substr(sl + 1);
    return cache[pc] = fn + "@" + loc;
}

static std::string sched_str(const std::vector<int>& v) {
    std::string s;
    for (size_t i = 0; i < v.size(); ++i) s += (i ? "," : "") + std::to_string(v[i]);
    return s;
}

struct Explorer {
    Ctx& ctx;
    const Scenario& sc;
    std::vector<std::vector<uint64_t>> ref;   // single-threaded results per thread
    uint64_t execs = 0, by_pre[8] = {0}, by_apre[4] = {0};
    std::set<uint64_t> shared;                // sync addresses operated on by >= 2 threads in some execution
    struct Skipped {
        std::vector<int> prefix;
        uint64_t addr;
    };
    std::vector<Skipped> skipped;             // alternatives at (so far) thread-private atomics
    uint64_t pruned = 0;
    int abound = 1;                           // bound on preemptions taken at atomic operations
    int fbound = 1 << 30;                     // bound on non-preemptive departures from the canonical order (many-thread scenarios)
    int shard = 0, nshards = 1;               // the subtrees below the root execution are dealt out to the shards
    uint64_t top_idx = 0;
    std::set<std::string> outcomes;           // distinct result vectors observed
    std::set<std::string> race_sites;
    bool race_reported = false, mismatch_reported = false, deadlock_reported = false, fpenv_reported = false;
    bool stop = false;
    bool coarse = false;                      // see explore(): first/last-per-address restriction for huge executions
    uint64_t coarse_skipped = 0;
    const double TMO = 30.0;

    std::string res_key(const std::vector<std::vector<uint64_t>>& r) {
        std::string k;
        for (auto& t : r) {
            for (auto v : t) k += std::to_string(v) + ",";
            k += ";";
        }
        return k;
    }

    // executes one schedule and checks it; returns the execution (for expansion)
    Exec exec_and_check(const std::vector<int>& prefix, bool dealt = true) {
        Exec e = run_exec(sc, prefix, -1, TMO);
        if (e.kind == fb::TIMEOUT) {   // re-run alone with a 10x limit before saying anything
            e = run_exec(sc, prefix, -1, TMO * 10);
            if (e.kind == fb::TIMEOUT) {
                ctx.cap("inconclusive: execution stalled under the scheduler (" + sc.name + ")");
                stop = true;
                return e;
            }
        }
        const bool counted = dealt || shard == 0;   // replicated (zero-preemption) executions are counted by shard 0 only
        if (counted) {
            ++execs;
            ++ctx.traces;
            ++ctx.transitions;
        }
        std::vector<int> full;
        int pre = 0, apre = 0;
        for (auto& p : e.out.points) {
            full.push_back(p.chosen);
            if (p.cur_enabled && p.chosen != 0) {
                ++pre;
                if (p.kind == 2) ++apre;
            }
        }
        if (counted) {
            ++by_pre[std::min(pre, 7)];
            ++by_apre[std::min(apre, 3)];
            ctx.transitions += e.out.points.size();
        }
        for (auto a : e.out.shared_sync) shared.insert(a);
        if (!e.ok && full.size() < prefix.size()) full = prefix;   // no report came back: the prefix is what is known
        P par = P().kv("scenario", sc.name).kv("schedule", sched_str(full));
        if (!e.ok) {
            if (e.out.diverged) {
                fprintf(stderr, "replay divergence in %s at prefix %s\n", sc.name.c_str(), sched_str(prefix).c_str());
                exit(5);   // machinery error, never a violation
            }
            if (e.out.deadlock) {
                if (!deadlock_reported) {
                    Exec e2 = run_exec(sc, full, -1, TMO);
                    if (e2.out.deadlock) {
                        deadlock_reported = true;
                        ctx.fail_as("sched.schedule", "deadlock", par.str(), "deadlock: " + e.out.deadlock_info, "some thread enabled until all finish");
                    }
                }
                return e;
            }
            ctx.fail_as("sched.schedule", "abnormal-termination", par.str(),
                        fmt("child outcome %s: %s", fb::kind_name(e.kind), e.err.c_str()), "execution completes");
            stop = true;
            return e;
        }
        // (a) data races
        if (!e.out.races.empty()) {
            for (auto& r : e.out.races) {
                std::string site = symbolize(r.pc_prev) + " <-> " + symbolize(r.pc_cur);
                if (race_sites.insert(site).second && race_sites.size() <= 6) {
                    ctx.fail_as("sched.race", sc.name.substr(0, sc.name.find('.')).c_str(), P().kv("scenario", sc.name).str(),
                                fmt("data race on %s: %s by t%d during '%s' at %s / %s by t%d during '%s' at %s; %llu racing 8-byte "
                                    "granules in this execution (schedule %s)",
                                    r.where.c_str(), r.prev_write ? "write" : "read", r.tid_prev, r.op_prev.c_str(),
                                    symbolize(r.pc_prev).c_str(), r.cur_write ? "write" : "read", r.tid_cur, r.op_cur.c_str(),
                                    symbolize(r.pc_cur).c_str(), (unsigned long long)e.out.racy_granules, sched_str(full).c_str()),
                                "no pair of conflicting accesses unordered by happens-before",
                                P().kv("site_prev", symbolize(r.pc_prev)).kv("site_cur", symbolize(r.pc_cur)).kv("where", r.where));
                }
            }
            race_reported = true;
        }
        for (size_t t = 0; t < e.res.size() && !fpenv_reported; ++t)
            for (size_t k = 0; k < e.res[t].size(); ++k)
                if ((e.res[t][k] & 0xFFFFFFFF00000000ull) == FPENV_MARK) {
                    fpenv_reported = true;
                    ctx.fail_as("sched.fpenv", sc.name.substr(0, sc.name.find('.')).c_str(), P().kv("scenario", sc.name).str(),
                                fmt("thread t%zu, operation '%s' changed the floating-point control state of its thread (MXCSR control bits / rounding mode now 0x%06llx; FTZ = bit 15, DAZ = bit 6)",
                                    t + 1, k < sc.prog[t].size() ? sc.prog[t][k].label.c_str() : "?", (unsigned long long)(e.res[t][k] & 0xFFFFFFull)),
                                "library calls leave rounding mode, flush-to-zero and denormals-are-zero flags as the caller set them");
                    break;
                }
        // (b) results equal the single-threaded ones
        outcomes.insert(res_key(e.res));
        if (e.res != ref && !mismatch_reported) {
            Exec e2 = run_exec(sc, full, -1, TMO);   // replay before report
            if (e2.ok && e2.res == e.res) {
                mismatch_reported = true;
                std::string what;
                for (size_t t = 0; t < ref.size(); ++t)
                    for (size_t k = 0; k < ref[t].size(); ++k)
                        if (t >= e.res.size() || k >= e.res[t].size() || e.res[t][k] != ref[t][k])
                            what += fmt("t%zu:%s ", t + 1, sc.prog[t][k].label.c_str());
                ctx.fail_as("sched.schedule", "result", par.str(), "results differ from the single-threaded run for: " + what,
                            "bit-identical results", P().kv("preemptions", pre));
            } else {
                fprintf(stderr, "non-deterministic replay in %s schedule %s\n", sc.name.c_str(), sched_str(full).c_str());
                exit(5);
            }
        }
        ctx.note("sync_ops_seen", (long long)e.out.sync_ops);
        ctx.note("instrumented_accesses", (long long)e.out.accesses);
        return e;
    }

    // Iterative context bounding (Musuvathi/Qadeer): every alternative at every choice point beyond the replayed
    // prefix is expanded while the schedule stays within `bound` preemptions in total and `abound` preemptions
    // taken at atomic operations.  Partial-order reduction: a preemption right before an atomic operation on an
    // address that no other thread ever operates on is equivalent to preempting at the thread's next visible
    // operation, so such alternatives are parked and only explored if the address turns out to be shared.
    // Work split: executions reached through non-preemptive choices only (a handful) are replicated in every shard;
    // the subtree below the first preemptive alternative is explored by exactly one shard (round-robin).
    void explore(const std::vector<int>& prefix, int bound, bool dealt = false) {
        if (stop) return;
        if (!ctx.replay && ctx.elapsed() > ctx.deadline_s) {   // soft deadline: stop expanding, say so, never a failure
            ctx.cap("deadline: exploration of " + sc.name + " stopped before the bound was exhausted");
            stop = true;
            return;
        }
        Exec e = exec_and_check(prefix, dealt);
        if (!e.ok && !e.out.deadlock) return;
        auto& pts = e.out.points;
        if (prefix.empty() && pts.size() > 150 && abound > 1) {
            // a scenario with hundreds of shared atomic operations (reference counts of a shared composite plan): two
            // preemptions at atomics would mean millions of schedules; keep one there (total bound unchanged) and say so
            abound = 1;
            ctx.note("scenarios whose atomic-preemption bound was lowered to 1 (root execution has > 150 choice points)");
        }
        if (prefix.empty() && pts.size() > 1000) {
            // thousands of atomic operations per execution (reference counts inside a big shared plan): preemptions at atomics
            // are restricted to the points right before the FIRST and the LAST operation of each library call on each
            // synchronisation address (acquire/release pairs, first/last touch of a counter); stated in the evidence
            coarse = true;
            ctx.note("scenarios explored with preemptions at atomics only before the first/last operation of a call on each sync address (root execution has > 1000 choice points)");
        }
        std::vector<char> edge;
        if (coarse) {
            edge.assign(pts.size(), 0);
            std::map<int, int> opidx;
            std::map<std::tuple<int, int, uint64_t>, std::pair<size_t, size_t>> fl;
            for (size_t i = 0; i < pts.size(); ++i) {
                if (pts[i].kind == 1) ++opidx[pts[i].tid];
                if (pts[i].kind != 2) continue;
                auto key = std::make_tuple(pts[i].tid, opidx[pts[i].tid], (uint64_t)pts[i].addr);
                auto it = fl.find(key);
                if (it == fl.end()) fl[key] = {i, i};
                else it->second.second = i;
            }
            for (auto& kv : fl) edge[kv.second.first] = edge[kv.second.second] = 1;
        }
        int cost = 0, acost = 0, fcost = 0;
        std::vector<int> chosen;
        for (size_t i = 0; i < pts.size(); ++i) {
            if (i >= prefix.size()) {
                for (int alt = 1; alt < pts[i].n_enabled; ++alt) {
                    if (coarse && pts[i].cur_enabled && pts[i].kind == 2 && !edge[i]) {
                        ++coarse_skipped;
                        continue;
                    }
                    int c = cost + (pts[i].cur_enabled ? 1 : 0);
                    int ac = acost + ((pts[i].cur_enabled && pts[i].kind == 2) ? 1 : 0);
                    if (c > bound || ac > abound) continue;
                    if (!pts[i].cur_enabled && fcost + 1 > fbound) continue;
                    std::vector<int> np(chosen);
                    np.push_back(alt);
                    bool child_dealt = dealt;
                    if (!dealt && pts[i].cur_enabled) {
                        if ((int)(top_idx++ % (uint64_t)nshards) != shard) continue;   // another shard's subtree
                        child_dealt = true;
                    }
                    if (pts[i].cur_enabled && pts[i].kind == 2 && !shared.count(pts[i].addr)) {
                        skipped.push_back(Skipped{np, pts[i].addr});
                        continue;
                    }
                    explore(np, bound, child_dealt);
                    if (stop) return;
                }
            }
            if (pts[i].cur_enabled && pts[i].chosen != 0) {
                ++cost;
                if (pts[i].kind == 2) ++acost;
            }
            if (!pts[i].cur_enabled && pts[i].chosen != 0) ++fcost;
            chosen.push_back(pts[i].chosen);
        }
    }

    void run(int bound) {
        // single-threaded references: each thread's program alone in a fresh process
        ref.assign(sc.prog.size(), {});
        for (size_t t = 0; t < sc.prog.size(); ++t) {
            Exec e = run_exec(sc, {}, (int)t, TMO * 4);
            if (!e.ok || e.res.size() <= t || e.res[t].size() != sc.prog[t].size()) {
                ctx.fail_as("sched.reference", "single-thread", P().kv("scenario", sc.name).str(),
                            fmt("single-threaded reference run of thread %zu failed: %s %s", t, fb::kind_name(e.kind), e.err.c_str()),
                            "program completes");
                return;
            }
            ref[t] = e.res[t];
            Exec e2 = run_exec(sc, {}, (int)t, TMO * 4);
            if (!e2.ok || e2.res != e.res) {
                fprintf(stderr, "reference run not deterministic for %s thread %zu\n", sc.name.c_str(), t);
                exit(5);
            }
        }
        explore({}, bound);
        // fixpoint: parked alternatives whose address became shared meanwhile
        for (bool again = true; again && !stop;) {
            again = false;
            std::vector<Skipped> todo;
            todo.swap(skipped);
            for (auto& k : todo) {
                if (shared.count(k.addr)) {
                    again = true;
                    explore(k.prefix, bound, true);
                } else {
                    skipped.push_back(k);
                }
            }
        }
        pruned = skipped.size();
    }
};

int main(int argc, char** argv) {
    Ctx ctx;
    ctx.parse(argc, argv, "C09");
    auto S = make_scenarios(ctx.thorough());
    // replay of one recorded schedule
    if (ctx.replay && ctx.r_check == "sched.schedule") {
        std::string nm, sch;
        size_t a = ctx.r_params.find("\"scenario\":\"");
        if (a != std::string::npos) nm = ctx.r_params.substr(a + 12, ctx.r_params.find('"', a + 12) - a - 12);
        a = ctx.r_params.find("\"schedule\":\"");
        if (a != std::string::npos) sch = ctx.r_params.substr(a + 12, ctx.r_params.find('"', a + 12) - a - 12);
        std::vector<int> pf;
        std::istringstream ss(sch);
        std::string tok;
        while (std::getline(ss, tok, ',')) pf.push_back(atoi(tok.c_str()));
        for (auto& sc : S) {
            if (sc.name != nm) continue;
            ctx.replay_hit = true;
            ctx.begin("sched.schedule", ctx.r_params);
            Explorer ex{ctx, sc};
            ex.ref.assign(sc.prog.size(), {});
            for (size_t t = 0; t < sc.prog.size(); ++t) ex.ref[t] = run_exec(sc, {}, (int)t, 120).res[t];
            ex.exec_and_check(pf);
        }
        return ctx.finish();
    }
    const char* only = getenv("VERIF_C09_ONLY");
    for (auto& sc : S) {
        if (only && sc.name.find(only) == std::string::npos) continue;
        // every shard explores every scenario: the subtrees below the root execution are dealt out round-robin
        if (ctx.replay) {
            if (!ctx.take(ctx.r_check.c_str(), P().kv("scenario", sc.name))) continue;
        } else {
            if (ctx.elapsed() > ctx.deadline_s) {
                ctx.cap("deadline");
                break;
            }
            ctx.begin("sched.explore", P().kv("scenario", sc.name).str());
            if (ctx.shard != 0) {
                --ctx.evaluations;
                --ctx.checks["sched.explore"].evals;
            }
        }
        int bound = ctx.thorough() ? sc.bound + 1 : sc.bound;
        if (const char* b = getenv("VERIF_C09_BOUND")) bound = atoi(b);
        Explorer ex{ctx, sc};
        double t0 = ctx.elapsed();
        ex.abound = ctx.thorough() ? 2 : 1;
        if (sc.fbound >= 0) ex.fbound = ctx.thorough() ? sc.fbound + 1 : sc.fbound;
        ex.shard = ctx.replay ? 0 : ctx.shard;
        ex.nshards = ctx.replay ? 1 : ctx.nshards;
        if (const char* b = getenv("VERIF_C09_ABOUND")) ex.abound = atoi(b);
        ex.run(bound);
        ctx.state(fnv(sc.name));
        for (auto& k : ex.outcomes) ctx.state(fnv(k, fnv(sc.name)));
        for (uint64_t i = 0; i < ex.execs; ++i) ctx.nontrivial_key(mix(mix(ctx.cur_hash, (uint64_t)ctx.shard), i + 1));
        std::string summary = (fmt("%s [shard %d]: schedules=%llu (by preemptions 0/1/2/3+: %llu/%llu/%llu/%llu; at atomics 0/1/2: %llu/%llu/%llu) bound=%d abound=%d private-atomic alternatives pruned=%llu outcomes=%zu races=%zu coarse-skipped=%llu %.1fs",
                     sc.name.c_str(), ctx.shard, (unsigned long long)ex.execs, (unsigned long long)ex.by_pre[0], (unsigned long long)ex.by_pre[1],
                     (unsigned long long)ex.by_pre[2], (unsigned long long)(ex.by_pre[3] + ex.by_pre[4] + ex.by_pre[5] + ex.by_pre[6] + ex.by_pre[7]),
                     (unsigned long long)ex.by_apre[0], (unsigned long long)ex.by_apre[1], (unsigned long long)ex.by_apre[2], bound, ex.abound,
                     (unsigned long long)ex.pruned, ex.outcomes.size(), ex.race_sites.size(), (unsigned long long)ex.coarse_skipped, ctx.elapsed() - t0));
        ctx.note(summary);
        if (getenv("VERIF_C09_VERBOSE")) fprintf(stderr, "%s\n", summary.c_str());
        {
            uint64_t add = ex.execs - ((ctx.shard == 0 || ctx.replay) && ex.execs ? 1 : 0);
            ctx.evaluations += add;
            ctx.checks["sched.explore"].evals += add;
        }
    }
    return ctx.finish();
}
#endif
