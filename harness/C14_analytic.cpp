// C14 - analytic-signal and frequency-translation tools follow their definitions.
// Engine E1 (bounded-exhaustive enumeration of lengths / designs / (fs, f) pairs / framings on the real code).
//
//  hilbert.real      real(hilbert(x)) == x                       max |.| <= tol(n) ||x||_2,  tol(n) = max(1e-12, 64 n eps)
//  hilbert.negfreq   own long-double DFT of hilbert(x), bins k > n/2   max |H_k| <= tol(n) ||X||_2 (= sqrt(n) ||x||_2)
//  hilbert.posbins   same DFT, bins k <= n/2: Z[0] = X[0], Z[k] = 2 X[k], Z[n/2] = X[n/2] (even n), |.| <= tol(n) ||X||_2
//  hilbert.npoint    hilbert(x, n') == hilbert(x padded / truncated to n') (size, values, negative bins)
//  hfilter.response  |H(f) - (-j) e^{-j 2 pi f D}| <= 1e-3 on a 0.0005 grid over the stated pass-band, H = DTFT of impz()
//  hfilter.process   real part = input delayed by D = M/2 bit-exactly; imaginary part of a tone = tone shifted by
//                    90 degrees (and delayed by D) within 1e-3 of its amplitude once the FIR is filled (k >= M-1)
//  tuner.phase       r[k] = x[k] e^{2 pi i f k / fs} for every k of the stream (f k reduced modulo fs exactly in the
//                    oracle), |.| <= 1e-9 |x[k]|; every f in [-fs/2, fs/2] must be accepted by the constructor; 7 framings
//                    incl. frames longer than fs and 2 fs followed by further frames (several counter wraps per call)
//
// The property fixes only "real part = x" and "negative bins vanish"; the imaginary DC / Nyquist content of the
// analytic signal is left free by the statement and is not checked.
#include "vf.hpp"
#include <functional>
#include <memory>

using namespace vf;
using namespace dsplib;

// ---------------------------------------------------------------------------------------------- hilbert letters
enum { L_CONST, L_ALT, L_TON, L_THI, L_TOFF, L_TDC, L_LCG, L_TAG, NLET };
static const char* LNAME[NLET] = {"const", "alt", "tone_on", "tone_hi", "tone_off", "tone_dc", "lcg", "tag"};

static arr_real letter(int n, int l) {
    arr_real x(n);
    const int k1 = std::max(1, n / 5);
    const int k2 = std::max(1, (n - 1) / 2);
    for (int m = 0; m < n; ++m) {
        ld v = 0;
        switch (l) {
        case L_CONST: v = 1; break;
        case L_ALT: v = (m & 1) ? -1 : 1; break;
        case L_TON: v = cosl(2 * PI_L * (ld)((long long)k1 * m % n) / n + 0.3L); break;
        case L_THI: v = cosl(2 * PI_L * (ld)((long long)k2 * m % n) / n + 0.7L); break;
        case L_TOFF: v = cosl(2 * PI_L * ((ld)k1 + 0.37L) * m / n + 0.1L); break;
        case L_TDC: v = 0.5L + cosl(2 * PI_L * (ld)((long long)k1 * m % n) / n); break;
        case L_LCG: v = lcg_val(14, (uint64_t)m); break;
        case L_TAG: v = m + 1; break;
        }
        x[m] = (double)v;
    }
    return x;
}

// relative tolerance: the 1e-12 of the DESIGN, widened to 64*n*eps where that is larger (n > 70): hilbert is one fft and one
// ifft, each of which the library's own accuracy contract (C01/C02: 32*n*eps relative l2) allows to be that inexact.  Measured:
// prime n ~ 1500 (Bluestein) leave 4.5e-13 ||X|| in the mirror bin of a near-Nyquist tone, so a flat 1e-12 has only 2x margin.
static ld reltol(int n) { return std::max<ld>(1e-12L, 64.0L * n * (ld)EPS); }

static ld norm2(const arr_real& x) {
    ld s = 0;
    for (int i = 0; i < x.size(); ++i) s += (ld)x[i] * x[i];
    return sqrtl(s);
}

static int nonzeros(const arr_real& x) {
    int c = 0;
    for (int i = 0; i < x.size(); ++i) c += x[i] != 0;
    return c;
}

// twiddle table cache for the negative-bin DFT
static std::vector<cld> g_tw;
static int g_tw_n = 0;
static const std::vector<cld>& twtab(int n) {
    if (g_tw_n != n) {
        g_tw.resize(n);
        for (int j = 0; j < n; ++j) g_tw[j] = cis(-2 * PI_L * (ld)j / (ld)n);
        g_tw_n = n;
    }
    return g_tw;
}

static bool is_prime_i(int n) {
    if (n < 2) return false;
    for (long long d = 2; d * d <= n; ++d)
        if (n % d == 0) return false;
    return true;
}

// subset of the negative-frequency bins for lengths where the O(n^2) oracle over all of them is too slow: the three bins at
// either end of the range n/2+1 .. n-1, the mirror images (and their neighbours) of the tone letters' bins, and B bins spread
// evenly over the range.  Checking a subset demands less than the statement, never more.
static std::vector<int> neg_subset(int n, int B) {
    std::set<int> s;
    const int lo = n / 2 + 1, hi = n - 1;
    const int k1 = std::max(1, n / 5), k2 = std::max(1, (n - 1) / 2);
    for (int k : {lo, lo + 1, lo + 2, hi, hi - 1, hi - 2, n - k1 - 1, n - k1, n - k1 + 1, n - k2 - 1, n - k2, n - k2 + 1})
        if (k >= lo && k <= hi) s.insert(k);
    for (int j = 0; j < B; ++j) s.insert(lo + (int)((long long)j * (hi - lo) / std::max(1, B - 1)));
    return std::vector<int>(s.begin(), s.end());
}

// max |H_k| over the negative-frequency bins k = n/2+1 .. n-1 (or the given subset of them), H = DFT of h; kmax receives the bin
static ld negbins_max(const arr_cmplx& h, int& kmax, const std::vector<int>* bins = nullptr) {
    const int n = h.size();
    const auto& tw = twtab(n);
    ld worst = 0;
    kmax = -1;
    const int nb = bins ? (int)bins->size() : n - (n / 2 + 1);
    for (int b = 0; b < nb; ++b) {
        const int k = bins ? (*bins)[(size_t)b] : n / 2 + 1 + b;
        cld acc = 0;
        int idx = 0;
        for (int m = 0; m < n; ++m) {
            acc += cld(h[m].re, h[m].im) * tw[idx];
            idx += k;
            if (idx >= n) idx -= n;
        }
        ld a = std::abs(acc);
        if (!(a <= worst)) {   // also catches NaN
            worst = a;
            kmax = k;
        }
    }
    return worst;
}

static bool finite_arr(const arr_cmplx& h) {
    for (int i = 0; i < h.size(); ++i)
        if (!std::isfinite(h[i].re) || !std::isfinite(h[i].im)) return false;
    return true;
}

// F16-shaped failures (DC and Nyquist bins doubled, nothing else wrong) occur for almost every input on the
// unrepaired tree; keep room in the per-check record store for failures of any other shape
static void fail_real(Ctx& ctx, bool dcnyq_only, const std::string& obs, const std::string& exp, const P& detail) {
    if (dcnyq_only) {
        ctx.note("hilbert.real failures explained by doubled DC/Nyquist bin");
        if (ctx.checks[ctx.cur_check].stored >= 150) {
            ++ctx.violations;
            ++ctx.checks[ctx.cur_check].viol;
            return;
        }
    }
    ctx.fail("hilbert", obs, exp, detail);
}

// the two defining oracles on h = hilbert(x)
static void check_analytic(Ctx& ctx, const arr_real& x, const arr_cmplx& h, bool do_real, bool do_neg, const std::vector<int>* bins = nullptr) {
    const int n = x.size();
    if (h.size() != n) {
        ctx.fail("hilbert", fmt("result has %d elements", h.size()), fmt("%d", n), P().kv("kind", "size"));
        return;
    }
    if (!finite_arr(h)) {
        ctx.fail("hilbert", "non-finite output " + showc(h), "finite", P().kv("kind", "nonfinite"));
        return;
    }
    const ld nx = norm2(x);
    const ld rel = reltol(n);
    const ld tol = rel * nx;
    if (do_real) {
        ld err = 0;
        int at = 0;
        for (int m = 0; m < n; ++m) {
            ld e = fabsl((ld)h[m].re - (ld)x[m]);
            if (e > err) err = e, at = m;
        }
        if (err > tol) {
            // is the deviation exactly "bin 0 and bin n/2 weighted 2 instead of 1"?
            ld X0 = 0, XN = 0;
            for (int m = 0; m < n; ++m) {
                X0 += x[m];
                XN += (m & 1) ? -(ld)x[m] : (ld)x[m];
            }
            if (n % 2) XN = 0;
            ld resid = 0;
            for (int m = 0; m < n; ++m) {
                ld model = (ld)x[m] + X0 / n + ((m & 1) ? -XN : XN) / n;
                resid = std::max(resid, fabsl((ld)h[m].re - model));
            }
            const bool only = resid <= tol;
            fail_real(ctx, only,
                      fmt("real(hilbert(x))[%d]=%.15g, x[%d]=%.15g (max err %.3Lg, mean(x)=%.6Lg, nyquist/n=%.6Lg)", at, h[at].re, at,
                          x[at], err, X0 / n, XN / n),
                      fmt("real part equals x within max(1e-12,64 n eps)*||x|| = %.3Lg", tol),
                      P().kv("kind", "real").kv("dcnyq_only", only).kv("m", at));
        } else {
            ctx.worst("hilbert: max|real(h)-x| / (tol ||x||)", (double)(err / tol));
        }
    }
    if (do_neg) {
        int kmax = -1;
        const ld neg = negbins_max(h, kmax, bins);
        const ld tolX = rel * sqrtl((ld)n) * nx;
        if (!(neg <= tolX)) {
            ctx.fail("hilbert", fmt("|DFT(hilbert(x))[%d]| = %.6Lg", kmax, neg),
                     fmt("bins k > n/2 vanish: <= max(1e-12,64 n eps)*||X|| = %.3Lg", tolX), P().kv("kind", "negfreq").kv("k", kmax));
        } else {
            ctx.worst("hilbert: max negative bin / (tol ||X||)", (double)(neg / tolX));
        }
    }
}

// positive half of the spectrum of h = hilbert(x): Z[0] = X[0], Z[k] = 2 X[k] for 0 < k < n/2, Z[n/2] = X[n/2] (even n) - the
// textbook analytic signal (DC and Nyquist weight 1, the convention of the repaired tree).  X and Z from the harness's own
// long-double DFT; tolerance as for the negative bins.
static void check_posbins(Ctx& ctx, const arr_real& x, const arr_cmplx& h) {
    const int n = x.size();
    if (h.size() != n) {
        ctx.fail("hilbert", fmt("result has %d elements", h.size()), fmt("%d", n), P().kv("kind", "size"));
        return;
    }
    if (!finite_arr(h)) {
        ctx.fail("hilbert", "non-finite output " + showc(h), "finite", P().kv("kind", "nonfinite"));
        return;
    }
    const auto& tw = twtab(n);
    const ld tolX = reltol(n) * sqrtl((ld)n) * norm2(x);
    ld worst = 0;
    int kw = -1;
    cld zw = 0, xw = 0;
    for (int k = 0; k <= n / 2; ++k) {
        cld X = 0, Z = 0;
        int idx = 0;
        for (int m = 0; m < n; ++m) {
            X += (ld)x[m] * tw[idx];
            Z += cld(h[m].re, h[m].im) * tw[idx];
            idx += k;
            if (idx >= n) idx -= n;
        }
        const ld w = (k == 0 || (n % 2 == 0 && k == n / 2)) ? 1.0L : 2.0L;
        const ld e = std::abs(Z - w * X);
        if (!(e <= worst)) worst = e, kw = k, zw = Z, xw = w * X;
    }
    if (!(worst <= tolX))
        ctx.fail("hilbert", fmt("DFT(hilbert(x))[%d] = (%.9Lg, %.9Lg)", kw, zw.real(), zw.imag()),
                 fmt("%s X[%d] = (%.9Lg, %.9Lg) within %.3Lg", (kw == 0 || (n % 2 == 0 && kw == n / 2)) ? "1 *" : "2 *", kw, xw.real(), xw.imag(), tolX),
                 P().kv("kind", "posbins").kv("k", kw).kv("dc_or_nyquist", kw == 0 || (n % 2 == 0 && kw == n / 2)));
    else
        ctx.worst("hilbert: max |Z[k] - w X[k]| on k <= n/2 / (tol ||X||)", (double)(worst / tolX));
}

// a library call that throws on an in-domain input is an observed outcome of the case, not a harness crash
#define GUARD_BEGIN try {
#define GUARD_END(site)                                                                                                  \
    }                                                                                                                    \
    catch (const std::exception& e) {                                                                                    \
        ctx.fail(site, std::string("exception: ") + e.what(), "returns a value", P().kv("kind", "exception"));           \
    }

static void npoint_case(Ctx& ctx, int n, int n2, int l, const std::vector<int>* bins) {
    arr_real x = letter(n, l);
    arr_real xp(n2);
    for (int m = 0; m < n2; ++m) xp[m] = (m < n) ? x[m] : 0.0;
    arr_cmplx h2 = hilbert(x, n2);
    ctx.nontrivial();
    ctx.note(n2 > n ? "npoint pad" : (n2 < n ? "npoint truncate" : "npoint same"));
    if (h2.size() != n2) {
        ctx.fail("hilbert(x,n)", fmt("result has %d elements", h2.size()), fmt("%d", n2), P().kv("kind", "size"));
        return;
    }
    arr_cmplx h1 = hilbert(xp);
    if (h1.size() != n2) {
        ctx.fail("hilbert", fmt("result has %d elements", h1.size()), fmt("%d", n2), P().kv("kind", "size"));
        return;
    }
    ld err = 0;
    int at = 0;
    for (int m = 0; m < n2; ++m) {
        ld e = std::abs(cld(h2[m].re, h2[m].im) - cld(h1[m].re, h1[m].im));
        if (!(e <= err)) err = e, at = m;
    }
    const ld tol = reltol(n2) * norm2(xp);
    if (!(err <= tol))
        ctx.fail("hilbert(x,n)", fmt("element %d differs from hilbert(padded x) by %.3Lg: %s", at, err, showc(h2).c_str()), showc(h1),
                 P().kv("kind", "identity").kv("m", at));
    else
        ctx.worst("hilbert(x,n) vs hilbert(pad(x)) abs diff", (double)err);
    check_analytic(ctx, xp, h2, true, true, bins);   // real part and negative bins of the n-point result
}

static void run_hilbert(Ctx& ctx, bool T) {
    const int NFULL = T ? 4096 : 512;   // every n up to here: 7 letters, all negative bins
    const int NEXT = T ? 8192 : 0;      // every n in (NFULL, NEXT]: real part for 7 letters, all negative bins for 3 letters
    std::vector<int> ns;
    for (int n = 3; n <= std::max(NFULL, NEXT); ++n) ns.push_back(n);
    for (int n : {1000, 1023, 1024, 4095, 4096})
        if (n > ns.back()) ns.push_back(n);
    const int NIMP = T ? 512 : 64;   // every impulse position up to here
    // The three oracles are enumerated in separate sweeps over n (not interleaved per n): the negative-bin DFT costs O(n^2),
    // and a fixed number of cases per n would hand every expensive case to the same shards.
    for (int n : ns) {
        for (int l = 0; l < NLET - 1; ++l) {   // "tag" is used by npoint only
            if (!ctx.take("hilbert.real", P().kv("n", n).kv("letter", LNAME[l]))) continue;
            GUARD_BEGIN
            arr_real x = letter(n, l);
            arr_cmplx h = hilbert(x);
            if (nonzeros(x) >= 2) ctx.nontrivial();
            ctx.note(std::string("hilbert n ") + (n % 2 ? "odd" : "even"));
            if (l == 0 && is_prime_i(n)) ctx.note(n > 64 ? "hilbert prime n > 64" : "hilbert prime n <= 64");
            check_analytic(ctx, x, h, true, false);
            GUARD_END("hilbert")
        }
    }
    for (int n : ns) {
        for (int l = 0; l < NLET - 1; ++l) {
            if (n > NFULL && n <= NEXT && l != L_ALT && l != L_TOFF && l != L_LCG) continue;   // data-independent: same in every shard
            if (!ctx.take("hilbert.negfreq", P().kv("n", n).kv("letter", LNAME[l]))) continue;
            GUARD_BEGIN
            arr_real x = letter(n, l);
            arr_cmplx h = hilbert(x);
            if (nonzeros(x) >= 2) ctx.nontrivial();
            check_analytic(ctx, x, h, false, true);
            GUARD_END("hilbert")
        }
    }
    // positive bins incl. DC and Nyquist (letters with content in bin n/2: alternating sign, leakage of off-bin tones, LCG)
    for (int n : ns) {
        if (n > (T ? 2048 : 512) && n != 1000 && n != 1023 && n != 1024 && n != 4095 && n != 4096) continue;
        for (int l : {(int)L_CONST, (int)L_ALT, (int)L_TOFF, (int)L_TDC, (int)L_LCG}) {
            if (!ctx.take("hilbert.posbins", P().kv("n", n).kv("letter", LNAME[l]))) continue;
            GUARD_BEGIN
            arr_real x = letter(n, l);
            arr_cmplx h = hilbert(x);
            ctx.nontrivial();
            ctx.note(std::string("hilbert.posbins n ") + (n % 2 ? "odd" : "even"));
            check_posbins(ctx, x, h);
            GUARD_END("hilbert")
        }
    }
    // impulses: every position for n <= NIMP; above that (thorough) positions 1 and n-1 for every n <= NFULL and additionally
    // 0 and n/2 for every prime n
    for (int n : ns) {
        std::vector<int> pos;
        if (n <= NIMP) {
            for (int p = 0; p < n; ++p) pos.push_back(p);
        } else if (T && n <= NFULL) {
            pos = {1, n - 1};
            if (is_prime_i(n)) {
                pos.push_back(0);
                pos.push_back(n / 2);
            }
        }
        for (int p : pos) {
            if (!ctx.take("hilbert.impulse", P().kv("n", n).kv("pos", p))) continue;
            GUARD_BEGIN
            arr_real x(n);
            for (int m = 0; m < n; ++m) x[m] = 0;
            x[p] = 1;
            arr_cmplx h = hilbert(x);
            check_analytic(ctx, x, h, true, true);
            GUARD_END("hilbert")
        }
    }
    // big lengths (retained scratch buffers, 16-bit counters, padded prime transforms): real part in full, negative bins on a
    // subset (3 at either end, mirrors of the tone bins, 256 / 1024 spread evenly)
    {
        std::vector<int> big = {4097, 65536, 65537, 100000};
        if (T) big = {4097, 8191, 8192, 16384, 32768, 65521, 65535, 65536, 65537, 100000, 131071, 131072};
        for (int n : big) {
            for (int l : {(int)L_ALT, (int)L_TOFF, (int)L_TDC, (int)L_LCG}) {
                if (!ctx.take("hilbert.big", P().kv("n", n).kv("letter", LNAME[l]))) continue;
                GUARD_BEGIN
                arr_real x = letter(n, l);
                arr_cmplx h = hilbert(x);
                ctx.nontrivial();
                ctx.note(fmt("hilbert big n=%d%s", n, is_prime_i(n) ? " (prime)" : ""));
                const std::vector<int> bins = neg_subset(n, T ? 1024 : 256);
                check_analytic(ctx, x, h, true, true, &bins);
                GUARD_END("hilbert")
            }
        }
        // n-point form across the 65536 boundary: truncation 100000 -> 65536 / 65537, padding 4097 -> 65537, 65536 -> 100000
        const int pairs[][2] = {{100000, 65536}, {100000, 65537}, {4097, 65537}, {65536, 100000}};
        for (auto& pr : pairs) {
            if (!ctx.take("hilbert.npoint", P().kv("n", pr[0]).kv("n2", pr[1]).kv("letter", LNAME[L_LCG]))) continue;
            GUARD_BEGIN
            const std::vector<int> bins = neg_subset(pr[1], 64);
            npoint_case(ctx, pr[0], pr[1], L_LCG, &bins);
            GUARD_END("hilbert(x,n)")
        }
    }
    // n-point form: full grid for small n, around-the-length / half / double / prime targets for larger n
    const int NP = T ? 160 : 32;
    for (int n = 3; n <= NP; ++n) {
        for (int n2 = 3; n2 <= 2 * n + (T ? 1 : 0); ++n2) {
            for (int l : {(int)L_LCG, (int)L_TAG}) {
                if (!ctx.take("hilbert.npoint", P().kv("n", n).kv("n2", n2).kv("letter", LNAME[l]))) continue;
                GUARD_BEGIN
                npoint_case(ctx, n, n2, l, nullptr);
                GUARD_END("hilbert(x,n)")
            }
        }
    }
    if (T) {
        for (int n : {255, 256, 257, 509, 512, 1021, 1024, 2048}) {
            std::set<int> tg;
            for (int d = -3; d <= 3; ++d) tg.insert(n + d);
            for (int v : {n / 2, n / 2 + 1, 2 * n - 1, 2 * n, 2 * n + 1, 67, 127, 4093, 4096, 4099}) tg.insert(v);
            for (int n2 : tg) {
                for (int l : {(int)L_LCG, (int)L_TAG}) {
                    if (!ctx.take("hilbert.npoint", P().kv("n", n).kv("n2", n2).kv("letter", LNAME[l]))) continue;
                    GUARD_BEGIN
                    npoint_case(ctx, n, n2, l, nullptr);
                    GUARD_END("hilbert(x,n)")
                }
            }
        }
    }
}

// ---------------------------------------------------------------------------------------------- HilbertFilter
// gates with exact zeros (S = scale: fs / filter length / delay), used by the Tuner, HilbertFilter and Delay zero-input cases
enum { Z_STUFF2, Z_STUFF3, Z_LEAD1, Z_LEAD7, Z_LEADS3, Z_BURST, Z_SINGLE, Z_SINEZ, NZLET };
static const char* ZNAME[NZLET] = {"zero_stuffed_2", "zero_stuffed_3", "lead_1", "lead_7", "lead_S+3", "burst_silence_burst", "single_zero", "sine_on_zero_crossings"};
static bool zgate(int zl, long long k, long long S, long long N) {
    switch (zl) {
    case Z_STUFF2: return k % 2 == 0;
    case Z_STUFF3: return k % 3 == 0;
    case Z_LEAD1: return k >= 1;
    case Z_LEAD7: return k >= 7;
    case Z_LEADS3: return k >= S + 3;
    case Z_BURST: {   // bursts of S/2+3 samples separated by S + S/3 + 2 exact zeros (longer than S: whole frames of S samples are zero)
        const long long on = S / 2 + 3, off = S + S / 3 + 2;
        return k % (on + off) < on;
    }
    case Z_SINGLE: return k != N / 2;
    case Z_SINEZ: return k % 2 == 1;   // sin(pi k / 2): 0, 1, 0, -1, ...
    }
    return true;
}

// one tone of L samples through a fresh HilbertFilter(flen, tw), frames taken cyclically from `pat` (empty: one call)
static void hf_stream(Ctx& ctx, int flen, double tw, int M, int D, double f, double A, ld phi, int L, const std::vector<int>& pat) {
    arr_real x(L);
    for (int k = 0; k < L; ++k) x[k] = (double)(A * cosl(2 * PI_L * (ld)f * k + phi));
    HilbertFilter flt(flen, tw);
    arr_cmplx y(L);
    bool sized = true;
    if (pat.empty()) {
        arr_cmplx r = flt.process(x);
        if (r.size() != L) sized = false;
        else y = r;
    } else {
        int pos = 0;
        size_t j = 0;
        while (pos < L && sized) {
            int fl = std::min(std::max(1, pat[j++ % pat.size()]), L - pos);
            arr_real fr(fl);
            for (int i = 0; i < fl; ++i) fr[i] = x[pos + i];
            arr_cmplx r = flt.process(fr);
            if (r.size() != fl) {
                sized = false;
                break;
            }
            for (int i = 0; i < fl; ++i) y[pos + i] = r[i];
            pos += fl;
        }
    }
    ctx.nontrivial();
    if (!sized) {
        ctx.fail("HilbertFilter.process", "output frame size differs from input frame size", "same size", P().kv("kind", "size"));
        return;
    }
    // real part: input delayed by D, bit-exact
    int badk = -1;
    for (int k = 0; k < L && badk < 0; ++k) {
        double want = (k < D) ? 0.0 : x[k - D];
        if (!(y[k].re == want)) badk = k;   // value equality (a delay line copies samples)
    }
    if (badk >= 0)
        ctx.fail("HilbertFilter.process", fmt("real part[%d]=%.17g", badk, y[badk].re), fmt("x[%d-%d]=%.17g", badk, D, badk < D ? 0.0 : x[badk - D]),
                 P().kv("kind", "delay").kv("k", badk));
    // imaginary part: 90 degree shifted tone after the FIR is filled
    ld worst = 0;
    int wk = -1;
    for (int k = M - 1; k < L; ++k) {
        ld want = A * sinl(2 * PI_L * (ld)f * (k - D) + phi);
        ld e = fabsl((ld)y[k].im - want);
        if (!(e <= worst)) worst = e, wk = k;
    }
    if (!(worst <= 1e-3L * A))
        ctx.fail("HilbertFilter.process", fmt("imag[%d] off by %.3Lg (A=%g, f=%.6f, M=%d)", wk, worst, A, f, M),
                 "within 1e-3*A of A*sin(2 pi f (k-D) + phi)", P().kv("kind", "quadrature").kv("k", wk).kv("f", f));
    else
        ctx.worst("hfilter: process imag err / (1e-3 A)", (double)(worst / (1e-3L * A)));
}

static void run_hfilter(Ctx& ctx, bool T) {
    std::vector<int> flens = {31, 32, 51, 101, 200, 201, 401};
    std::vector<double> tws = {0.005, 0.01, 0.05, 0.1};
    if (T) {
        flens.clear();
        for (int m = 31; m <= 401; ++m) flens.push_back(m);
        tws = {0.005, 0.0075, 0.01, 0.015, 0.02, 0.03, 0.05, 0.075, 0.1};
    }
    const long long GRID = T ? 4000 : 2000;   // response grid step 0.5 / GRID: 0.0005 (quick, the DESIGN's), 0.000125 (thorough)
    for (int flen : flens) {
        for (double tw : tws) {
            // design once per (flen, tw) where needed
            bool built = false;
            arr_real hz;
            int M = 0, D = 0;
            double lo = 0, hi = 0;
            auto build = [&]() -> bool {
                if (built) return M > 0;
                built = true;
                HilbertFilter flt(flen, tw);
                hz = flt.impz();
                M = hz.size();
                if (M != flen && M != flen + 1) {
                    M = 0;
                    return false;
                }
                D = M / 2;
                lo = std::max(2 * tw, 6.0 / M);
                hi = 0.5 - lo;
                return true;
            };
            if (ctx.take("hfilter.response", P().kv("flen", flen).kv("tw", tw))) {
                GUARD_BEGIN
                if (!build()) {
                    ctx.fail("HilbertFilter.impz", fmt("filter length %d", (int)hz.size()), fmt("%d or %d", flen, flen + 1),
                             P().kv("kind", "length"));
                } else {
                    ctx.nontrivial();
                    ctx.note(fmt("hfilter design M=%d", M));
                    ld worst = 0;
                    double fw = 0;
                    long long pts = 0;
                    for (long long g = 0; g <= GRID; ++g) {
                        const double f = (double)g * 0.5 / (double)GRID;
                        if (f < lo || f > hi) continue;
                        ++pts;
                        // H(f) = sum h[m] z^m, z = e^{-j 2 pi f}: Horner in long double
                        const cld z = cis(-2 * PI_L * (ld)f);
                        cld H = 0;
                        for (int m = M - 1; m >= 0; --m) H = H * z + (ld)hz[m];
                        cld want = cld(0, -1) * cis(-2 * PI_L * (ld)f * D);
                        ld e = std::abs(H - want);
                        if (!(e <= worst)) worst = e, fw = f;
                    }
                    ctx.note("hfilter response grid points", pts);
                    if (pts == 0) ctx.note("hfilter EMPTY pass-band");
                    if (!(worst <= 1e-3L))
                        ctx.fail("HilbertFilter.impz", fmt("|H(f) - (-j)e^{-j2pi f D}| = %.3Lg at f=%.6f (M=%d)", worst, fw, M), "<= 1e-3",
                                 P().kv("kind", "response").kv("f", fw));
                    else
                        ctx.worst("hfilter: |H(f)-ideal| / 1e-3", (double)(worst / 1e-3L));
                }
                GUARD_END("HilbertFilter.ctor")
            }
            for (int fi = 0; fi < 16; ++fi) {
                for (int framing = 0; framing < (T ? 3 : 2); ++framing) {
                    if (!ctx.take("hfilter.process", P().kv("flen", flen).kv("tw", tw).kv("fi", fi).kv("framing", framing))) continue;
                    GUARD_BEGIN
                    if (!build()) {
                        ctx.fail("HilbertFilter.impz", fmt("filter length %d", (int)hz.size()), fmt("%d or %d", flen, flen + 1),
                                 P().kv("kind", "length"));
                        continue;
                    }
                    const double f = lo + (hi - lo) * fi / 15.0;
                    const double A = (fi % 2) ? 250.0 : 1.0;
                    const ld phi = 0.2L + 0.37L * fi;
                    const int L = 3 * M + 64;
                    static const std::vector<int> none, cyc = {1, 7, 64, 3, 200, 2};
                    const std::vector<int> mm = {M, 1, M - 1, M + 1};
                    hf_stream(ctx, flen, tw, M, D, f, A, phi, L, framing == 0 ? none : (framing == 1 ? cyc : mm));
                    GUARD_END("HilbertFilter.process")
                }
            }
        }
    }
    // long streams: 140 000 samples (indices, ring positions and sample counters cross 65 536) in one call and in frames of 1000
    {
        const int flenL[] = {101, 400};
        for (int flen : flenL) {
            for (int framing = 0; framing < 3; ++framing) {
                if (!ctx.take("hfilter.stream", P().kv("flen", flen).kv("tw", 0.01).kv("len", 140000).kv("framing", framing))) continue;
                GUARD_BEGIN
                HilbertFilter probe(flen, 0.01);
                const int M = probe.impz().size();
                if (M != flen && M != flen + 1) {
                    ctx.fail("HilbertFilter.impz", fmt("filter length %d", M), fmt("%d or %d", flen, flen + 1), P().kv("kind", "length"));
                    continue;
                }
                static const std::vector<int> none, k1000 = {1000}, mixed = {65536, 1, 999, 70000};
                ctx.note("hfilter long stream (140000 samples)");
                hf_stream(ctx, flen, 0.01, M, M / 2, 0.1234, 1.0, 0.4L, 140000, framing == 0 ? none : (framing == 1 ? k1000 : mixed));
                GUARD_END("HilbertFilter.process")
            }
        }
    }
}

// HilbertFilter on an input with runs of EXACT zeros (an all-zero-frame / zero-sample fast path must not disturb the state):
// real part = input delayed by D (by value), imaginary part = impz() convolved with the input (header: "out = delay(in, M/2)
// + j * fir(in)"), long-double reference, absolute tolerance 1e-12 * sum|h| * max|x|
static void hf_zeros(Ctx& ctx, int flen, double tw, int zl, const std::vector<int>& pat) {
    HilbertFilter flt(flen, tw);
    const arr_real hz = flt.impz();
    const int M = hz.size();
    if (M != flen && M != flen + 1) {
        ctx.fail("HilbertFilter.impz", fmt("filter length %d", M), fmt("%d or %d", flen, flen + 1), P().kv("kind", "length"));
        return;
    }
    const int D = M / 2, L = 8 * M + 200;
    arr_real x(L);
    for (int k = 0; k < L; ++k) {
        if (!zgate(zl, k, M, L)) x[k] = 0.0;
        else if (zl == Z_SINEZ) x[k] = (k % 4 == 1) ? 1.0 : -1.0;
        else x[k] = (double)cosl(2 * PI_L * 0.2L * k + 0.4L);
    }
    arr_cmplx y(L);
    int pos = 0, allzero_frames = 0;
    size_t j = 0;
    while (pos < L) {
        int fl = pat.empty() ? L : std::min(std::max(1, pat[j++ % pat.size()]), L - pos);
        arr_real fr(fl);
        bool az = true;
        for (int i = 0; i < fl; ++i) {
            fr[i] = x[pos + i];
            az = az && fr[i] == 0;
        }
        allzero_frames += az;
        arr_cmplx r = flt.process(fr);
        if (r.size() != fl) {
            ctx.fail("HilbertFilter.process", "output frame size differs from input frame size", "same size", P().kv("kind", "size"));
            return;
        }
        for (int i = 0; i < fl; ++i) y[pos + i] = r[i];
        pos += fl;
    }
    ctx.nontrivial();
    if (allzero_frames) ctx.note("hfilter zero input: stream with all-zero frames");
    int badk = -1;
    for (int k = 0; k < L && badk < 0; ++k) {
        double want = (k < D) ? 0.0 : x[k - D];
        if (!(y[k].re == want)) badk = k;
    }
    if (badk >= 0)
        ctx.fail("HilbertFilter.process", fmt("real part[%d]=%.17g", badk, y[badk].re), fmt("x[%d-%d]=%.17g", badk, D, badk < D ? 0.0 : x[badk - D]),
                 P().kv("kind", "delay").kv("k", badk));
    ld sh = 0;
    for (int m = 0; m < M; ++m) sh += fabsl((ld)hz[m]);
    const ld tol = 1e-12L * sh;
    ld worst = 0;
    int wk = -1;
    for (int k = 0; k < L; ++k) {
        ld ref = 0;
        for (int m = 0; m < M && m <= k; ++m) ref += (ld)hz[m] * (ld)x[k - m];
        ld e = fabsl((ld)y[k].im - ref);
        if (!(e <= worst)) worst = e, wk = k;
    }
    if (!(worst <= tol))
        ctx.fail("HilbertFilter.process", fmt("imag[%d] differs from (impz * x)[%d] by %.3Lg", wk, wk, worst), fmt("<= 1e-12 * sum|h| = %.3Lg", tol),
                 P().kv("kind", "fir").kv("k", wk));
    else
        ctx.worst("hfilter zero input: |imag - impz*x| / (1e-12 sum|h|)", (double)(worst / tol));
}

static void run_hfilter_zeros(Ctx& ctx, bool T) {
    struct Dz {
        int flen;
        double tw;
    };
    std::vector<Dz> ds = {{31, 0.05}, {101, 0.01}, {400, 0.01}};
    if (T) {
        ds.clear();
        for (int fl : {31, 32, 51, 101, 200, 201, 401})
            for (double tw : {0.01, 0.05}) ds.push_back({fl, tw});
    }
    for (const Dz& d : ds) {
        const int M = d.flen | 1;
        const std::vector<std::vector<int>> pats = {{}, {1, 7, 64, 3, 200, 2}, {M}, {64}};
        for (int zl = 0; zl < NZLET; ++zl) {
            for (int framing = 0; framing < 4; ++framing) {
                if (!ctx.take("hfilter.zeros", P().kv("flen", d.flen).kv("tw", d.tw).kv("letter", ZNAME[zl]).kv("framing", framing))) continue;
                GUARD_BEGIN
                hf_zeros(ctx, d.flen, d.tw, zl, pats[(size_t)framing]);
                GUARD_END("HilbertFilter.process")
            }
        }
    }
}

// ---------------------------------------------------------------------------------------------- Delay (the mechanism behind the
// real part of HilbertFilter): out[k] = x[k - D] (0 for k < D), bit-exact, for any framing
template<class E>
static void delay_case(Ctx& ctx, int D, int L, const std::vector<int>& pat, int zl = -1) {
    base_array<E> x(L);
    for (int k = 0; k < L; ++k) {
        if (zl >= 0 && !zgate(zl, k, D, L)) {
            x[k] = E{};
            continue;
        }
        if constexpr (std::is_same_v<E, cmplx_t>) x[k] = cmplx_t{(double)(k + 1), -(double)(k + 1) - 0.5};
        else x[k] = (double)(k + 1);
    }
    Delay<E> dl(D);
    ctx.nontrivial();
    int pos = 0;
    size_t j = 0;
    long long bad = -1;
    while (pos < L && bad < 0) {
        int fl = pat.empty() ? L : std::min(std::max(1, pat[j++ % pat.size()]), L - pos);
        base_array<E> fr(fl);
        for (int i = 0; i < fl; ++i) fr[i] = x[pos + i];
        base_array<E> r = dl.process(fr);
        if (r.size() != fl) {
            ctx.fail("Delay.process", fmt("output has %d samples for a frame of %d", r.size(), fl), "same size", P().kv("kind", "size"));
            return;
        }
        for (int i = 0; i < fl && bad < 0; ++i) {
            const int k = pos + i;
            const E want = (k < D) ? E{} : x[k - D];
            if (std::memcmp(&r[i], &want, sizeof(E)) != 0) bad = k;
        }
        pos += fl;
    }
    if (bad >= 0) ctx.fail("Delay.process", fmt("sample %lld differs", bad), fmt("x[%lld - %d] (tag %lld), 0 before", bad, D, bad - D + 1), P().kv("kind", "value").kv("k", bad));
}

static void run_delay(Ctx& ctx, bool T) {
    std::vector<int> Ds = {1, 50, 65535, 65536, 70000};
    if (T) Ds = {1, 2, 3, 50, 999, 1000, 1001, 4095, 4096, 4097, 65535, 65536, 65537, 70000};
    const std::vector<std::vector<int>> pats = {{}, {1000}, {1, 7, 64, 3, 200, 2, 65536, 5}, {70001, 1, 69999}};
    for (int D : Ds) {
        for (int cplx = 0; cplx < 2; ++cplx) {
            for (int framing = 0; framing < (T ? 4 : 2); ++framing) {
                if (!ctx.take("delay.stream", P().kv("D", D).kv("type", cplx ? "cmplx" : "real").kv("len", 140000).kv("framing", framing))) continue;
                GUARD_BEGIN
                if (cplx) delay_case<cmplx_t>(ctx, D, 140000, pats[(size_t)framing]);
                else delay_case<real_t>(ctx, D, 140000, pats[(size_t)framing]);
                GUARD_END("Delay.process")
            }
        }
    }
    // inputs with runs of exact zeros (whole frames zero), bit-exact shift
    for (int D : {1, 5, 64, 1000}) {
        const std::vector<std::vector<int>> zp = {{}, {D}, {1, 7, 64, 3, 200, 2}, {1000}};
        for (int cplx = 0; cplx < 2; ++cplx) {
            for (int zl = 0; zl < NZLET - 1; ++zl) {   // the sine letter is a Tuner / filter letter
                for (int framing = 0; framing < 4; ++framing) {
                    if (!ctx.take("delay.zeros", P().kv("D", D).kv("type", cplx ? "cmplx" : "real").kv("letter", ZNAME[zl]).kv("framing", framing))) continue;
                    GUARD_BEGIN
                    if (cplx) delay_case<cmplx_t>(ctx, D, 8 * D + 200, zp[(size_t)framing], zl);
                    else delay_case<real_t>(ctx, D, 8 * D + 200, zp[(size_t)framing], zl);
                    GUARD_END("Delay.process")
                }
            }
        }
    }
}

// ---------------------------------------------------------------------------------------------- Tuner
// exact reduction of f*k/fs modulo 1: f = sgn * m * 2^-s with integer m
struct FExact {
    int sgn = 1;
    unsigned __int128 m = 0;
    int s = 0;
};
static FExact fexact(double f) {
    FExact r;
    if (f == 0) return r;
    r.sgn = f < 0 ? -1 : 1;
    int e;
    double fr = std::frexp(std::fabs(f), &e);   // |f| = fr * 2^e, fr in [0.5, 1)
    uint64_t m = (uint64_t)std::ldexp(fr, 53);
    int s = 53 - e;
    while (s > 0 && (m & 1) == 0) m >>= 1, --s;
    while (s < 0) m <<= 1, ++s;   // |f| < 2^17 here, no overflow
    r.m = m;
    r.s = s;
    return r;
}
// angle 2*pi*frac(f*k/fs) in long double
static ld tuner_angle(const FExact& fe, long long k, int fs) {
    if (fe.m == 0) return 0;
    unsigned __int128 Dn = (unsigned __int128)fs << fe.s;   // fs * 2^s  (s <= ~70 would overflow: guarded by caller)
    unsigned __int128 r = (fe.m * (unsigned __int128)k) % Dn;
    ld frac = (ld)r / (ld)Dn;
    if (fe.sgn < 0) frac = -frac;
    return 2 * PI_L * frac;
}

// one stream through a fresh Tuner(fs, f): input gen(k) for the absolute sample index k, frames taken cyclically from pat,
// every sample compared with gen(k) * exp(2 pi i f k / fs) (f k reduced exactly); exact-zero inputs must give |r| <= 1e-9
static void tuner_stream(Ctx& ctx, int fs, double f, long long N, const std::vector<long long>& pat, const std::function<cmplx_t(long long)>& gen) {
    FExact fe = fexact(f);
    if (fe.s > 100) {   // cannot happen for the candidate list (|f| >= 1e-3)
        ctx.cap("tuner oracle: f too small for exact reduction");
        return;
    }
    std::unique_ptr<Tuner> tn;
    try {
        tn.reset(new Tuner(fs, f));
    } catch (const std::exception& e) {
        ctx.fail("Tuner.ctor", std::string("constructor threw: ") + e.what(), fmt("f=%.17g is in [-fs/2, fs/2] = [-%g, %g]: accepted", f, fs / 2.0, fs / 2.0),
                 P().kv("kind", "ctor").kv("fs_odd", fs % 2 == 1).kv("above_int_half", std::fabs(f) > fs / 2));
        return;
    }
    long long pos = 0;
    int j = 0;
    long long badk = -1, zeros = 0;
    ld worst = 0;
    std::string obs, exp;
    while (pos < N) {
        long long flen = pat[(size_t)(j++) % pat.size()];
        flen = std::min(flen, N - pos);
        arr_cmplx x((int)flen);
        for (long long i = 0; i < flen; ++i) x[(int)i] = gen(pos + i);
        arr_cmplx r = tn->process(x);
        if (r.size() != (int)flen) {
            ctx.fail("Tuner.process", "output size differs from input size", "same size", P().kv("kind", "size"));
            return;
        }
        for (long long i = 0; i < flen; ++i) {
            const long long k = pos + i;
            const cld xk(x[(int)i].re, x[(int)i].im);
            cld want = xk * cis(tuner_angle(fe, k, fs));
            const ld ax = std::abs(xk);
            if (ax == 0) ++zeros;
            ld e = std::abs(cld(r[(int)i].re, r[(int)i].im) - want) / (ax == 0 ? 1.0L : ax);
            if (!(e <= 1e-9L)) {
                if (badk < 0) {
                    badk = k;
                    obs = fmt("r[%lld]=(%.12g,%.12g) for x=(%.12g,%.12g), %lld exact-zero samples before it", k, r[(int)i].re, r[(int)i].im, x[(int)i].re, x[(int)i].im, zeros - (ax == 0));
                    exp = fmt("x*exp(2 pi i f k/fs)=(%.12Lg,%.12Lg)", want.real(), want.imag());
                }
            } else if (!(e <= worst)) {
                worst = e;
            }
        }
        pos += flen;
    }
    if (badk >= 0)
        ctx.fail("Tuner.process", obs, exp, P().kv("kind", "phase").kv("k", badk).kv("at_wrap", badk == fs));
    else
        ctx.worst("tuner: |r-ref|/|x| / 1e-9", (double)(worst / 1e-9L));
}

static void run_tuner(Ctx& ctx, bool T) {
    std::vector<int> fss = {8, 9, 100, 8000, 100000};
    if (T) fss = {8, 9, 10, 11, 12, 13, 14, 15, 16, 17, 18, 19, 20, 25, 31, 32, 33, 63, 64, 65, 100, 101, 127, 128, 255, 256, 257, 999, 1000, 1001, 4095, 4096, 8000, 11025, 22050, 32000, 44100, 48000, 65535, 65536, 65537, 88200, 96000, 100000};
    for (int fs : fss) {
        std::vector<double> fl;
        auto add = [&](double f) {
            if (std::fabs(f) > fs / 2.0) return;
            for (double g : fl)
                if (g == f) return;
            fl.push_back(f);
        };
        std::vector<double> cand = {0, 1, fs / 4.0, fs / 2.0, 0.5, 1.25, 2.5, (fs - 1) / 2.0, 440.3, fs / 2.0 - 0.1, 1.0 / 3.0, fs / 3.0, 0.001, 3.0, fs / 2.0 - 1.0};
        if (T)
            for (double c : {fs / 5.0, fs / 7.0, 0.1, fs / 2.0 - 0.001, fs / 2.0 - 1.0 / 3.0, 2.0 / 3.0, 7.75, fs / 6.0 + 0.25, 1000.0625}) cand.push_back(c);
        for (double c : cand) {
            add(c);
            add(-c);
        }
        const long long N03 = T ? (long long)std::ceil(5.5 * fs) : (fs <= 101 ? (long long)std::ceil(3.5 * fs) : (long long)(2.5 * fs));
        // framings 0..2: one call / short frames / frames of exactly fs samples.  Framings 3..6: frames longer than fs and
        // longer than 2 fs (several counter wraps inside ONE call) followed by further frames, stream of 9 fs + 17 > 8 fs
        // samples - the state carried from one call to the next must account for every wrap made inside a call.
        // Framings 7, 8: 140 000 samples in frames of 1000 and in one call (sample counter / phase index crossing 65 536).
        const long long F = fs;
        const long long NBIG = 140000;
        const std::vector<std::vector<long long>> patterns = {
            {N03}, {1, 2, 3, 5, 7, 11, 64, 1000}, {F}, {2 * F + 3, 1, F - 1, 3 * F + 1, 5}, {F + 1}, {3 * F}, {1, 4 * F + 2, 7}, {1000}, {NBIG}};
        auto dense = [](long long k) { return cmplx_t{lcg_val(11, (uint64_t)k) + 1.5, lcg_val(12, (uint64_t)k)}; };
        for (double f : fl) {
            const bool fint = (f == std::floor(f));
            for (int framing = 0; framing < (int)patterns.size(); ++framing) {
                const long long N = framing < 3 ? N03 : (framing < 7 ? 9 * F + 17 : NBIG);
                if (!ctx.take("tuner.phase", P().kv("fs", fs).kv("f", f).kv("fint", fint).kv("framing", framing))) continue;
                GUARD_BEGIN
                ctx.note(fint ? "tuner integer f" : "tuner fractional f");
                ctx.note(framing < 3 ? "tuner framing: frames <= fs or single call" : (framing < 7 ? "tuner framing: frames > fs / > 2 fs followed by more frames" : "tuner framing: 140000 samples (frames of 1000 / one call)"));
                if (f != 0) ctx.nontrivial();
                tuner_stream(ctx, fs, f, N, patterns[(size_t)framing], dense);
                GUARD_END("Tuner.process")
            }
        }
        // inputs containing EXACT zeros (zero-stuffed, leading silence, burst / silence / burst, a sine sampled on its zero
        // crossings, one zero sample): sample k is still multiplied by exp(2 pi i f k / fs) with k the absolute index.
        // Thorough: the sample rates up to 1001 and three large ones.
        if (T && fs > 1001 && fs != 8000 && fs != 65536 && fs != 100000) continue;
        const long long NZ = fs <= 1001 ? (long long)std::ceil(3.5 * fs) + 8 : (long long)(1.2 * fs) + 50;
        const int zfr[4] = {0, 1, 2, 3};
        const std::vector<std::vector<long long>> zpat = {{NZ}, {1, 2, 3, 5, 7, 11, 64, 1000}, {F}, {2 * F + 3, 1, F - 1, 3 * F + 1, 5}};
        for (double f : fl) {
            for (int zl = 0; zl < NZLET; ++zl) {
                for (int fi = 0; fi < 4; ++fi) {
                    if (!ctx.take("tuner.zeros", P().kv("fs", fs).kv("f", f).kv("letter", ZNAME[zl]).kv("framing", zfr[fi]))) continue;
                    GUARD_BEGIN
                    if (f != 0) ctx.nontrivial();
                    ctx.note(std::string("tuner input with exact zeros: ") + ZNAME[zl]);
                    auto gen = [&](long long k) {
                        if (!zgate(zl, k, F, NZ)) return cmplx_t{0.0, 0.0};
                        if (zl == Z_SINEZ) return cmplx_t{(k % 4 == 1) ? 1.0 : -1.0, 0.0};
                        return cmplx_t{lcg_val(11, (uint64_t)k) + 1.5, lcg_val(12, (uint64_t)k)};
                    };
                    tuner_stream(ctx, fs, f, NZ, zpat[(size_t)fi], gen);
                    GUARD_END("Tuner.process")
                }
            }
        }
    }
}

int main(int argc, char** argv) {
    Ctx ctx;
    ctx.parse(argc, argv, "C14");
    const bool T = ctx.thorough();
    run_hilbert(ctx, T);
    run_hfilter(ctx, T);
    run_hfilter_zeros(ctx, T);
    run_delay(ctx, T);
    run_tuner(ctx, T);
    return ctx.finish();
}
