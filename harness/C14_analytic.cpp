// C14 - analytic-signal and frequency-translation tools follow their definitions.
// Engine E1 (bounded-exhaustive enumeration of lengths / designs / (fs, f) pairs / framings on the real code).
//
//  hilbert.real      real(hilbert(x)) == x                       max |.| <= tol(n) ||x||_2,  tol(n) = max(1e-12, 64 n eps)
//  hilbert.negfreq   own long-double DFT of hilbert(x), bins k > n/2   max |H_k| <= tol(n) ||X||_2 (= sqrt(n) ||x||_2)
//  hilbert.npoint    hilbert(x, n') == hilbert(x padded / truncated to n') (size, values, negative bins)
//  hfilter.response  |H(f) - (-j) e^{-j 2 pi f D}| <= 1e-3 on a 0.0005 grid over the stated pass-band, H = DTFT of impz()
//  hfilter.process   real part = input delayed by D = M/2 bit-exactly; imaginary part of a tone = tone shifted by
//                    90 degrees (and delayed by D) within 1e-3 of its amplitude once the FIR is filled (k >= M-1)
//  tuner.phase       r[k] = x[k] e^{2 pi i f k / fs} for every k of the stream (f k reduced modulo fs exactly in the
//                    oracle), |.| <= 1e-9 |x[k]|; every f in [-fs/2, fs/2] must be accepted by the constructor; 7 framings
//                    incl. frames longer than fs and 2 fs followed by further frames (several counter wraps per call)
//
// The property fixes only "real part = x" and "negative bins vanish"; the imaginary DC / Nyquist content of the
// analytic signal is left free by the statement and is not checked.
#include "vf.hpp"

using namespace vf;
using namespace dsplib;

// ---------------------------------------------------------------------------------------------- hilbert letters
enum { L_CONST, L_ALT, L_TON, L_THI, L_TOFF, L_TDC, L_LCG, L_TAG, NLET };
static const char* LNAME[NLET] = {"const", "alt", "tone_on", "tone_hi", "tone_off", "tone_dc", "lcg", "tag"};

static arr_real letter(int n, int l) {
    arr_real x(n);
    const int k1 = std::max(1, n / 5);
    const int k2 = std::max(1, (n - 1) / 2);
    for (int m = 0; m < n; ++m) {
        ld v = 0;
        switch (l) {
        case L_CONST: v = 1; break;
        case L_ALT: v = (m & 1) ? -1 : 1; break;
        case L_TON: v = cosl(2 * PI_L * (ld)((long long)k1 * m % n) / n + 0.3L); break;
        case L_THI: v = cosl(2 * PI_L * (ld)((long long)k2 * m % n) / n + 0.7L); break;
        case L_TOFF: v = cosl(2 * PI_L * ((ld)k1 + 0.37L) * m / n + 0.1L); break;
        case L_TDC: v = 0.5L + cosl(2 * PI_L * (ld)((long long)k1 * m % n) / n); break;
        case L_LCG: v = lcg_val(14, (uint64_t)m); break;
        case L_TAG: v = m + 1; break;
        }
        x[m] = (double)v;
    }
    return x;
}

// relative tolerance: the 1e-12 of the DESIGN, widened to 64*n*eps where that is larger (n > 70): hilbert is one fft and one
// ifft, each of which the library's own accuracy contract (C01/C02: 32*n*eps relative l2) allows to be that inexact.  Measured:
// prime n ~ 1500 (Bluestein) leave 4.5e-13 ||X|| in the mirror bin of a near-Nyquist tone, so a flat 1e-12 has only 2x margin.
static ld reltol(int n) { return std::max<ld>(1e-12L, 64.0L * n * (ld)EPS); }

static ld norm2(const arr_real& x) {
    ld s = 0;
    for (int i = 0; i < x.size(); ++i) s += (ld)x[i] * x[i];
    return sqrtl(s);
}

static int nonzeros(const arr_real& x) {
    int c = 0;
    for (int i = 0; i < x.size(); ++i) c += x[i] != 0;
    return c;
}

// twiddle table cache for the negative-bin DFT
static std::vector<cld> g_tw;
static int g_tw_n = 0;
static const std::vector<cld>& twtab(int n) {
    if (g_tw_n != n) {
        g_tw.resize(n);
        for (int j = 0; j < n; ++j) g_tw[j] = cis(-2 * PI_L * (ld)j / (ld)n);
        g_tw_n = n;
    }
    return g_tw;
}

// max |H_k| over the negative-frequency bins k = n/2+1 .. n-1, H = DFT of h; kmax receives the bin
static ld negbins_max(const arr_cmplx& h, int& kmax) {
    const int n = h.size();
    const auto& tw = twtab(n);
    ld worst = 0;
    kmax = -1;
    for (int k = n / 2 + 1; k < n; ++k) {
        cld acc = 0;
        int idx = 0;
        for (int m = 0; m < n; ++m) {
            acc += cld(h[m].re, h[m].im) * tw[idx];
            idx += k;
            if (idx >= n) idx -= n;
        }
        ld a = std::abs(acc);
        if (!(a <= worst)) {   // also catches NaN
            worst = a;
            kmax = k;
        }
    }
    return worst;
}

static bool finite_arr(const arr_cmplx& h) {
    for (int i = 0; i < h.size(); ++i)
        if (!std::isfinite(h[i].re) || !std::isfinite(h[i].im)) return false;
    return true;
}

// F16-shaped failures (DC and Nyquist bins doubled, nothing else wrong) occur for almost every input on the
// unrepaired tree; keep room in the per-check record store for failures of any other shape
static void fail_real(Ctx& ctx, bool dcnyq_only, const std::string& obs, const std::string& exp, const P& detail) {
    if (dcnyq_only) {
        ctx.note("hilbert.real failures explained by doubled DC/Nyquist bin");
        if (ctx.checks[ctx.cur_check].stored >= 150) {
            ++ctx.violations;
            ++ctx.checks[ctx.cur_check].viol;
            return;
        }
    }
    ctx.fail("hilbert", obs, exp, detail);
}

// the two defining oracles on h = hilbert(x)
static void check_analytic(Ctx& ctx, const arr_real& x, const arr_cmplx& h, bool do_real, bool do_neg) {
    const int n = x.size();
    if (h.size() != n) {
        ctx.fail("hilbert", fmt("result has %d elements", h.size()), fmt("%d", n), P().kv("kind", "size"));
        return;
    }
    if (!finite_arr(h)) {
        ctx.fail("hilbert", "non-finite output " + showc(h), "finite", P().kv("kind", "nonfinite"));
        return;
    }
    const ld nx = norm2(x);
    const ld rel = reltol(n);
    const ld tol = rel * nx;
    if (do_real) {
        ld err = 0;
        int at = 0;
        for (int m = 0; m < n; ++m) {
            ld e = fabsl((ld)h[m].re - (ld)x[m]);
            if (e > err) err = e, at = m;
        }
        if (err > tol) {
            // is the deviation exactly "bin 0 and bin n/2 weighted 2 instead of 1"?
            ld X0 = 0, XN = 0;
            for (int m = 0; m < n; ++m) {
                X0 += x[m];
                XN += (m & 1) ? -(ld)x[m] : (ld)x[m];
            }
            if (n % 2) XN = 0;
            ld resid = 0;
            for (int m = 0; m < n; ++m) {
                ld model = (ld)x[m] + X0 / n + ((m & 1) ? -XN : XN) / n;
                resid = std::max(resid, fabsl((ld)h[m].re - model));
            }
            const bool only = resid <= tol;
            fail_real(ctx, only,
                      fmt("real(hilbert(x))[%d]=%.15g, x[%d]=%.15g (max err %.3Lg, mean(x)=%.6Lg, nyquist/n=%.6Lg)", at, h[at].re, at,
                          x[at], err, X0 / n, XN / n),
                      fmt("real part equals x within max(1e-12,64 n eps)*||x|| = %.3Lg", tol),
                      P().kv("kind", "real").kv("dcnyq_only", only).kv("m", at));
        } else {
            ctx.worst("hilbert: max|real(h)-x| / (tol ||x||)", (double)(err / tol));
        }
    }
    if (do_neg) {
        int kmax = -1;
        const ld neg = negbins_max(h, kmax);
        const ld tolX = rel * sqrtl((ld)n) * nx;
        if (!(neg <= tolX)) {
            ctx.fail("hilbert", fmt("|DFT(hilbert(x))[%d]| = %.6Lg", kmax, neg),
                     fmt("bins k > n/2 vanish: <= max(1e-12,64 n eps)*||X|| = %.3Lg", tolX), P().kv("kind", "negfreq").kv("k", kmax));
        } else {
            ctx.worst("hilbert: max negative bin / (tol ||X||)", (double)(neg / tolX));
        }
    }
}

// a library call that throws on an in-domain input is an observed outcome of the case, not a harness crash
#define GUARD_BEGIN try {
#define GUARD_END(site)                                                                                                  \
    }                                                                                                                    \
    catch (const std::exception& e) {                                                                                    \
        ctx.fail(site, std::string("exception: ") + e.what(), "returns a value", P().kv("kind", "exception"));           \
    }

static void run_hilbert(Ctx& ctx, bool T) {
    std::vector<int> ns;
    for (int n = 3; n <= (T ? 2048 : 512); ++n) ns.push_back(n);
    for (int n : {1000, 1023, 1024, 4095, 4096})
        if (n > ns.back()) ns.push_back(n);
    if (T) ns.push_back(6000);
    const int NIMP = T ? 128 : 64;
    for (int n : ns) {
        for (int l = 0; l < NLET - 1; ++l) {   // "tag" is used by npoint only
            for (int pass = 0; pass < 2; ++pass) {
                const char* chk = pass ? "hilbert.negfreq" : "hilbert.real";
                if (!ctx.take(chk, P().kv("n", n).kv("letter", LNAME[l]))) continue;
                GUARD_BEGIN
                arr_real x = letter(n, l);
                arr_cmplx h = hilbert(x);
                if (nonzeros(x) >= 2) ctx.nontrivial();
                ctx.note(std::string("hilbert n ") + (n % 2 ? "odd" : "even"));
                // separate check ids (and record stores) for the two defining oracles
                check_analytic(ctx, x, h, pass == 0, pass == 1);
                GUARD_END("hilbert")
            }
        }
        if (n <= NIMP) {
            for (int p = 0; p < n; ++p) {
                if (!ctx.take("hilbert.impulse", P().kv("n", n).kv("pos", p))) continue;
                GUARD_BEGIN
                arr_real x(n);
                for (int m = 0; m < n; ++m) x[m] = 0;
                x[p] = 1;
                arr_cmplx h = hilbert(x);
                check_analytic(ctx, x, h, true, true);
                GUARD_END("hilbert")
            }
        }
    }
    // n-point form
    for (int n = 3; n <= 32; ++n) {
        for (int n2 = 3; n2 <= 2 * n; ++n2) {
            for (int l : {(int)L_LCG, (int)L_TAG}) {
                if (!ctx.take("hilbert.npoint", P().kv("n", n).kv("n2", n2).kv("letter", LNAME[l]))) continue;
                GUARD_BEGIN
                arr_real x = letter(n, l);
                arr_real xp(n2);
                for (int m = 0; m < n2; ++m) xp[m] = (m < n) ? x[m] : 0.0;
                arr_cmplx h2 = hilbert(x, n2);
                ctx.nontrivial();
                ctx.note(n2 > n ? "npoint pad" : (n2 < n ? "npoint truncate" : "npoint same"));
                if (h2.size() != n2) {
                    ctx.fail("hilbert(x,n)", fmt("result has %d elements", h2.size()), fmt("%d", n2), P().kv("kind", "size"));
                    continue;
                }
                arr_cmplx h1 = hilbert(xp);
                if (h1.size() != n2) {
                    ctx.fail("hilbert", fmt("result has %d elements", h1.size()), fmt("%d", n2), P().kv("kind", "size"));
                    continue;
                }
                ld err = 0;
                int at = 0;
                for (int m = 0; m < n2; ++m) {
                    ld e = std::abs(cld(h2[m].re, h2[m].im) - cld(h1[m].re, h1[m].im));
                    if (!(e <= err)) err = e, at = m;
                }
                const ld tol = reltol(n2) * norm2(xp);
                if (!(err <= tol))
                    ctx.fail("hilbert(x,n)", fmt("element %d differs from hilbert(padded x) by %.3Lg: %s", at, err, showc(h2).c_str()),
                             showc(h1), P().kv("kind", "identity").kv("m", at));
                else
                    ctx.worst("hilbert(x,n) vs hilbert(pad(x)) abs diff", (double)err);
                check_analytic(ctx, xp, h2, false, true);   // negative bins of the n-point result
                GUARD_END("hilbert(x,n)")
            }
        }
    }
}

// ---------------------------------------------------------------------------------------------- HilbertFilter
static void run_hfilter(Ctx& ctx, bool T) {
    std::vector<int> flens = {31, 32, 51, 101, 200, 201, 401};
    std::vector<double> tws = {0.005, 0.01, 0.05, 0.1};
    if (T) {
        flens.clear();
        for (int m = 31; m <= 401; ++m) flens.push_back(m);
        tws = {0.005, 0.01, 0.02, 0.05, 0.1};
    }
    const int frames[] = {1, 7, 64, 3, 200, 2};
    for (int flen : flens) {
        for (double tw : tws) {
            // design once per (flen, tw) where needed
            bool built = false;
            arr_real hz;
            int M = 0, D = 0;
            double lo = 0, hi = 0;
            auto build = [&]() -> bool {
                if (built) return M > 0;
                built = true;
                HilbertFilter flt(flen, tw);
                hz = flt.impz();
                M = hz.size();
                if (M != flen && M != flen + 1) {
                    M = 0;
                    return false;
                }
                D = M / 2;
                lo = std::max(2 * tw, 6.0 / M);
                hi = 0.5 - lo;
                return true;
            };
            if (ctx.take("hfilter.response", P().kv("flen", flen).kv("tw", tw))) {
                GUARD_BEGIN
                if (!build()) {
                    ctx.fail("HilbertFilter.impz", fmt("filter length %d", (int)hz.size()), fmt("%d or %d", flen, flen + 1),
                             P().kv("kind", "length"));
                } else {
                    ctx.nontrivial();
                    ctx.note(fmt("hfilter design M=%d", M));
                    ld worst = 0;
                    double fw = 0;
                    long long pts = 0;
                    for (long long g = 0; g <= 1000; ++g) {
                        const double f = (double)g * 0.0005;
                        if (f < lo || f > hi) continue;
                        ++pts;
                        cld H = 0;
                        for (int m = 0; m < M; ++m) H += (ld)hz[m] * cis(-2 * PI_L * (ld)f * m);
                        cld want = cld(0, -1) * cis(-2 * PI_L * (ld)f * D);
                        ld e = std::abs(H - want);
                        if (!(e <= worst)) worst = e, fw = f;
                    }
                    ctx.note("hfilter response grid points", pts);
                    if (pts == 0) ctx.note("hfilter EMPTY pass-band");
                    if (!(worst <= 1e-3L))
                        ctx.fail("HilbertFilter.impz", fmt("|H(f) - (-j)e^{-j2pi f D}| = %.3Lg at f=%.4f (M=%d)", worst, fw, M), "<= 1e-3",
                                 P().kv("kind", "response").kv("f", fw));
                    else
                        ctx.worst("hfilter: |H(f)-ideal| / 1e-3", (double)(worst / 1e-3L));
                }
                GUARD_END("HilbertFilter.ctor")
            }
            for (int fi = 0; fi < 16; ++fi) {
                for (int framing = 0; framing < 2; ++framing) {
                    if (!ctx.take("hfilter.process", P().kv("flen", flen).kv("tw", tw).kv("fi", fi).kv("framing", framing))) continue;
                    GUARD_BEGIN
                    if (!build()) {
                        ctx.fail("HilbertFilter.impz", fmt("filter length %d", (int)hz.size()), fmt("%d or %d", flen, flen + 1),
                                 P().kv("kind", "length"));
                        continue;
                    }
                    const double f = lo + (hi - lo) * fi / 15.0;
                    const double A = (fi % 2) ? 250.0 : 1.0;
                    const ld phi = 0.2L + 0.37L * fi;
                    const int L = 3 * M + 64;
                    arr_real x(L);
                    for (int k = 0; k < L; ++k) x[k] = (double)(A * cosl(2 * PI_L * (ld)f * k + phi));
                    HilbertFilter flt(flen, tw);
                    arr_cmplx y(L);
                    bool sized = true;
                    if (framing == 0) {
                        arr_cmplx r = flt.process(x);
                        if (r.size() != L) sized = false;
                        else y = r;
                    } else {
                        int pos = 0, j = 0;
                        while (pos < L && sized) {
                            int fl = std::min(frames[j++ % 6], L - pos);
                            arr_real fr(fl);
                            for (int i = 0; i < fl; ++i) fr[i] = x[pos + i];
                            arr_cmplx r = flt.process(fr);
                            if (r.size() != fl) {
                                sized = false;
                                break;
                            }
                            for (int i = 0; i < fl; ++i) y[pos + i] = r[i];
                            pos += fl;
                        }
                    }
                    ctx.nontrivial();
                    if (!sized) {
                        ctx.fail("HilbertFilter.process", "output frame size differs from input frame size", "same size",
                                 P().kv("kind", "size"));
                        continue;
                    }
                    // real part: input delayed by D, bit-exact
                    int badk = -1;
                    for (int k = 0; k < L && badk < 0; ++k) {
                        double want = (k < D) ? 0.0 : x[k - D];
                        if (!(y[k].re == want)) badk = k;   // value equality (a delay line copies samples)
                    }
                    if (badk >= 0)
                        ctx.fail("HilbertFilter.process", fmt("real part[%d]=%.17g", badk, y[badk].re),
                                 fmt("x[%d-%d]=%.17g", badk, D, badk < D ? 0.0 : x[badk - D]), P().kv("kind", "delay").kv("k", badk));
                    // imaginary part: 90 degree shifted tone after the FIR is filled
                    ld worst = 0;
                    int wk = -1;
                    for (int k = M - 1; k < L; ++k) {
                        ld want = A * sinl(2 * PI_L * (ld)f * (k - D) + phi);
                        ld e = fabsl((ld)y[k].im - want);
                        if (!(e <= worst)) worst = e, wk = k;
                    }
                    if (!(worst <= 1e-3L * A))
                        ctx.fail("HilbertFilter.process", fmt("imag[%d] off by %.3Lg (A=%g, f=%.6f, M=%d)", wk, worst, A, f, M),
                                 "within 1e-3*A of A*sin(2 pi f (k-D) + phi)", P().kv("kind", "quadrature").kv("k", wk).kv("f", f));
                    else
                        ctx.worst("hfilter: process imag err / (1e-3 A)", (double)(worst / (1e-3L * A)));
                    GUARD_END("HilbertFilter.process")
                }
            }
        }
    }
}

// ---------------------------------------------------------------------------------------------- Tuner
// exact reduction of f*k/fs modulo 1: f = sgn * m * 2^-s with integer m
struct FExact {
    int sgn = 1;
    unsigned __int128 m = 0;
    int s = 0;
};
static FExact fexact(double f) {
    FExact r;
    if (f == 0) return r;
    r.sgn = f < 0 ? -1 : 1;
    int e;
    double fr = std::frexp(std::fabs(f), &e);   // |f| = fr * 2^e, fr in [0.5, 1)
    uint64_t m = (uint64_t)std::ldexp(fr, 53);
    int s = 53 - e;
    while (s > 0 && (m & 1) == 0) m >>= 1, --s;
    while (s < 0) m <<= 1, ++s;   // |f| < 2^17 here, no overflow
    r.m = m;
    r.s = s;
    return r;
}
// angle 2*pi*frac(f*k/fs) in long double
static ld tuner_angle(const FExact& fe, long long k, int fs) {
    if (fe.m == 0) return 0;
    unsigned __int128 Dn = (unsigned __int128)fs << fe.s;   // fs * 2^s  (s <= ~70 would overflow: guarded by caller)
    unsigned __int128 r = (fe.m * (unsigned __int128)k) % Dn;
    ld frac = (ld)r / (ld)Dn;
    if (fe.sgn < 0) frac = -frac;
    return 2 * PI_L * frac;
}

static void run_tuner(Ctx& ctx, bool T) {
    std::vector<int> fss = {8, 9, 100, 8000, 100000};
    if (T) fss = {8, 9, 10, 11, 100, 101, 8000, 44100, 48000, 100000};
    for (int fs : fss) {
        std::vector<double> fl;
        auto add = [&](double f) {
            if (std::fabs(f) > fs / 2.0) return;
            for (double g : fl)
                if (g == f) return;
            fl.push_back(f);
        };
        const double cand[] = {0, 1, fs / 4.0, fs / 2.0, 0.5, 1.25, 2.5, (fs - 1) / 2.0, 440.3, fs / 2.0 - 0.1, 1.0 / 3.0, fs / 3.0, 0.001, 3.0, fs / 2.0 - 1.0};
        for (double c : cand) {
            add(c);
            add(-c);
        }
        const long long N03 = (fs <= 101 || T) ? (long long)std::ceil(3.5 * fs) : (long long)(2.5 * fs);
        // framings 0..2: one call / short frames / frames of exactly fs samples.  Framings 3..6: frames longer than fs and
        // longer than 2 fs (several counter wraps inside ONE call) followed by further frames, stream of 9 fs + 17 > 8 fs
        // samples - the state carried from one call to the next must account for every wrap made inside a call.
        const long long F = fs;
        const std::vector<std::vector<long long>> patterns = {
            {N03}, {1, 2, 3, 5, 7, 11, 64, 1000}, {F}, {2 * F + 3, 1, F - 1, 3 * F + 1, 5}, {F + 1}, {3 * F}, {1, 4 * F + 2, 7}};
        for (double f : fl) {
            const bool fint = (f == std::floor(f));
            for (int framing = 0; framing < (int)patterns.size(); ++framing) {
                const long long N = framing < 3 ? N03 : 9 * F + 17;
                const std::vector<long long>& pat = patterns[framing];
                if (!ctx.take("tuner.phase", P().kv("fs", fs).kv("f", f).kv("fint", fint).kv("framing", framing))) continue;
                GUARD_BEGIN
                ctx.note(fint ? "tuner integer f" : "tuner fractional f");
                ctx.note(framing < 3 ? "tuner framing: frames <= fs or single call" : "tuner framing: frames > fs / > 2 fs followed by more frames");
                if (f != 0) ctx.nontrivial();
                FExact fe = fexact(f);
                if (fe.s > 100) {   // cannot happen for the candidate list (|f| >= 1e-3)
                    ctx.cap("tuner oracle: f too small for exact reduction");
                    continue;
                }
                std::unique_ptr<Tuner> tn;
                try {
                    tn.reset(new Tuner(fs, f));
                } catch (const std::exception& e) {
                    ctx.fail("Tuner.ctor", std::string("constructor threw: ") + e.what(), fmt("f=%.17g is in [-fs/2, fs/2] = [-%g, %g]: accepted", f, fs / 2.0, fs / 2.0),
                             P().kv("kind", "ctor").kv("fs_odd", fs % 2 == 1).kv("above_int_half", std::fabs(f) > fs / 2));
                    continue;
                }
                long long pos = 0;
                int j = 0;
                long long badk = -1;
                ld worst = 0;
                std::string obs, exp;
                bool sized = true;
                while (pos < N && sized) {
                    long long flen = pat[(size_t)(j++) % pat.size()];
                    flen = std::min(flen, N - pos);
                    arr_cmplx x((int)flen);
                    for (long long i = 0; i < flen; ++i)
                        x[(int)i] = cmplx_t{lcg_val(11, (uint64_t)(pos + i)) + 1.5, lcg_val(12, (uint64_t)(pos + i))};
                    arr_cmplx r = tn->process(x);
                    if (r.size() != (int)flen) {
                        sized = false;
                        break;
                    }
                    for (long long i = 0; i < flen; ++i) {
                        const long long k = pos + i;
                        cld want = cld(x[(int)i].re, x[(int)i].im) * cis(tuner_angle(fe, k, fs));
                        ld e = std::abs(cld(r[(int)i].re, r[(int)i].im) - want) / std::abs(cld(x[(int)i].re, x[(int)i].im));
                        if (!(e <= 1e-9L)) {
                            if (badk < 0) {
                                badk = k;
                                obs = fmt("r[%lld]=(%.12g,%.12g) for x=(%.12g,%.12g)", k, r[(int)i].re, r[(int)i].im, x[(int)i].re, x[(int)i].im);
                                exp = fmt("x*exp(2 pi i f k/fs)=(%.12Lg,%.12Lg)", want.real(), want.imag());
                            }
                        } else if (!(e <= worst)) {
                            worst = e;
                        }
                    }
                    pos += flen;
                }
                if (!sized) {
                    ctx.fail("Tuner.process", "output size differs from input size", "same size", P().kv("kind", "size"));
                    continue;
                }
                if (badk >= 0)
                    ctx.fail("Tuner.process", obs, exp, P().kv("kind", "phase").kv("k", badk).kv("at_wrap", badk == fs));
                else
                    ctx.worst("tuner: |r-ref|/|x| / 1e-9", (double)(worst / 1e-9L));
                GUARD_END("Tuner.process")
            }
        }
    }
}

int main(int argc, char** argv) {
    Ctx ctx;
    ctx.parse(argc, argv, "C14");
    const bool T = ctx.thorough();
    run_hilbert(ctx, T);
    run_hfilter(ctx, T);
    run_tuner(ctx, T);
    return ctx.finish();
}
