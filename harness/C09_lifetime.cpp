// C09 (second harness) - thread lifetimes: per-thread state (random engine, plan caches) belongs to ONE thread.
// Engine E2 (history exploration on the real library): a history is a sequence of events
//     S(p)    a new thread is started, runs program p, is joined
//     M(p)    the main thread runs program p
//     O(p,q)  thread A runs the first half of p, thread B is started, runs q and is joined, A runs the rest of p
// over an alphabet of small programs (draws with and without seeding, transforms that fill and evict the plan
// caches, a mix).  Every history of the stated length runs in a fresh forked process on real std::threads -
// sequentially started threads make the C library recycle thread ids, stacks and TLS blocks, which is exactly
// what a registry keyed by thread identity or a lazily re-bound TLS slot gets wrong.  No schedule nondeterminism
// is involved: at most one thread runs library code at any time (hand-over by join / promise), so each history
// has exactly one behaviour; the interleaved cases are explored by C09_threads.cpp under the scheduler.
// Oracle ("each call returns what it would return single-threaded", "random-number state is per thread"):
//   * a program run by a fresh thread returns what the same program returns in a fresh process;
//   * the main thread's programs return what they return when the history's thread events are deleted.
#include "vf_fork.hpp"
#include <future>
#include <atomic>
#include <xmmintrin.h>
static inline unsigned vf_x87cw() {   // x87 control word (rounding / precision control of long double arithmetic)
    unsigned short cw;
    __asm__ __volatile__("fnstcw %0" : "=m"(cw));
    return cw;
}
#include <thread>

using namespace vf;
using namespace dsplib;

static uint64_t hb(const void* p, size_t n, uint64_t h) {
    const unsigned char* b = (const unsigned char*)p;
    for (size_t i = 0; i < n; ++i) h = mix(h, b[i]);
    return h;
}
static uint64_t H(const arr_cmplx& a) { return hb(a.data(), (size_t)a.size() * sizeof(cmplx_t), mix(7, (uint64_t)a.size())); }
static uint64_t H(const arr_real& a) { return hb(a.data(), (size_t)a.size() * sizeof(real_t), mix(9, (uint64_t)a.size())); }
static uint64_t H(const arr_int& a) { return hb(a.data(), (size_t)a.size() * sizeof(int), mix(11, (uint64_t)a.size())); }
static arr_real rl(int n, uint64_t tag) {
    arr_real x(n);
    for (int i = 0; i < n; ++i) x[i] = lcg_val(tag, (uint64_t)i);
    return x;
}
static arr_cmplx cl(int n, uint64_t tag) {
    arr_cmplx x(n);
    for (int i = 0; i < n; ++i) x[i] = cmplx_t(lcg_val(tag, (uint64_t)i), lcg_val(tag + 77, (uint64_t)i));
    return x;
}

static std::atomic<bool> g_fpenv_changed{false};
using OpF = std::function<uint64_t()>;
struct Prog {
    const char* name;
    std::vector<OpF> ops;
};

static std::vector<Prog> programs() {
    std::vector<Prog> v;
    v.push_back({"draw", {[] { return H(randn(2)); }, [] { return H(dsplib::rand(1)); }, [] { return H(randi({0, 9}, 2)); }}});
    v.push_back({"seed5-draw", {[] { rng(5); return (uint64_t)5; }, [] { return H(randn(3)); }, [] { return H(dsplib::rand(2)); }}});
    v.push_back({"fft-evict", {[] { return H(fft(cl(12, 1))); }, [] { return H(rfft(rl(30, 2))); }, [] { return H(fft(cl(7, 3))); },
                               [] { return H(fft(cl(60, 4))); }, [] { return H(fft(cl(53, 5))); }, [] { return H(fft(cl(12, 6))); }}});
    v.push_back({"fft-draw", {[] { return H(fft(cl(16, 7))); }, [] { return H(awgn(rl(4, 8), 10)); }, [] { return H(irfft(cl(13, 9), 24)); },
                              [] { return H(randn(1)); }}});
    v.push_back({"window-primes", {[] { return H(window::kaiser(8, 3.0)); }, [] { return (uint64_t)isprime(65537) ^ H(factor(67591)); },
                                   [] { return H(randi(100, 2)); }}});
    return v;
}

static std::vector<uint64_t> run_ops(const Prog& p, size_t lo, size_t hi) {
    std::vector<uint64_t> r;
    for (size_t i = lo; i < hi; ++i) {
        uint64_t h;
        const unsigned fp0 = (_mm_getcsr() & 0xFFC0u) | (vf_x87cw() << 16);
        try {
            h = p.ops[i]();
        } catch (const std::exception& e) {
            h = 0xE0000000ull;
            for (const char* c = e.what(); *c; ++c) h = mix(h, (uint64_t)(unsigned char)*c);
        }
        const unsigned fp1 = (_mm_getcsr() & 0xFFC0u) | (vf_x87cw() << 16);
        if (fp1 != fp0) g_fpenv_changed = true;   // a library call must leave rounding mode / FTZ / DAZ of its thread alone
        r.push_back(h);
    }
    return r;
}

struct Ev {
    char kind;   // 'S', 'M', 'O'
    int p, q;
};
static std::string ev_str(const std::vector<Prog>& PR, const std::vector<Ev>& h) {
    std::string s;
    for (auto& e : h) {
        if (!s.empty()) s += " ";
        s += e.kind;
        s += "(";
        s += PR[(size_t)e.p].name;
        if (e.kind == 'O') s += std::string(",") + PR[(size_t)e.q].name;
        s += ")";
    }
    return s;
}

// executes a history in the calling process; returns one result vector per program instance in event order
// (O contributes two: A then B)
static std::vector<std::vector<uint64_t>> run_history(const std::vector<Prog>& PR, const std::vector<Ev>& h, bool main_only) {
    std::vector<std::vector<uint64_t>> out;
    for (auto& e : h) {
        const Prog& p = PR[(size_t)e.p];
        if (e.kind == 'M') {
            out.push_back(run_ops(p, 0, p.ops.size()));
        } else if (main_only) {
            continue;
        } else if (e.kind == 'S') {
            std::vector<uint64_t> r;
            std::thread t([&] { r = run_ops(p, 0, p.ops.size()); });
            t.join();
            out.push_back(r);
        } else {
            const Prog& q = PR[(size_t)e.q];
            std::vector<uint64_t> ra, rb;
            std::promise<void> half, resume;
            std::thread a([&] {
                size_t m = p.ops.size() / 2;
                ra = run_ops(p, 0, m);
                half.set_value();
                resume.get_future().wait();
                auto r2 = run_ops(p, m, p.ops.size());
                ra.insert(ra.end(), r2.begin(), r2.end());
            });
            half.get_future().wait();
            std::thread b([&] { rb = run_ops(q, 0, q.ops.size()); });
            b.join();
            resume.set_value();
            a.join();
            out.push_back(ra);
            out.push_back(rb);
        }
    }
    return out;
}

static std::string ser(const std::vector<std::vector<uint64_t>>& v) {
    std::string s;
    for (auto& r : v) {
        for (auto x : r) s += std::to_string(x) + " ";
        s += "\n";
    }
    return s;
}
static std::vector<std::vector<uint64_t>> deser(const std::string& s) {
    std::vector<std::vector<uint64_t>> v;
    std::istringstream in(s);
    std::string line;
    while (std::getline(in, line)) {
        std::istringstream ls(line);
        std::vector<uint64_t> r;
        uint64_t x;
        while (ls >> x) r.push_back(x);
        v.push_back(r);
    }
    return v;
}

int main(int argc, char** argv) {
    Ctx ctx;
    ctx.parse(argc, argv, "C09");
    const bool T = ctx.thorough();
    auto PR = programs();
    const int NP = (int)PR.size();

    // references: every program alone in a fresh process (twice: the reference itself must be deterministic)
    std::vector<std::vector<uint64_t>> ref((size_t)NP);
    for (int p = 0; p < NP; ++p) {
        for (int rep = 0; rep < 2; ++rep) {
            fb::Result r = fb::run([&] { fb::emit(ser(run_history(PR, {Ev{'M', p, 0}}, false))); }, 30.0);
            auto v = deser(r.out);
            if (r.kind != fb::RETURNED || v.size() != 1 || v[0].size() != PR[(size_t)p].ops.size()) {
                fprintf(stderr, "reference run of program %s failed: %s\n", PR[(size_t)p].name, fb::kind_name(r.kind));
                return 4;
            }
            if (rep == 0) ref[(size_t)p] = v[0];
            else if (ref[(size_t)p] != v[0]) {
                fprintf(stderr, "reference run of program %s is not deterministic\n", PR[(size_t)p].name);
                return 5;
            }
        }
    }

    // event alphabet
    std::vector<Ev> alpha;
    for (int p = 0; p < NP; ++p) alpha.push_back(Ev{'S', p, 0});
    for (int p = 0; p < NP; ++p) alpha.push_back(Ev{'M', p, 0});
    for (int p = 0; p < NP; ++p)
        for (int q = 0; q < NP; ++q) alpha.push_back(Ev{'O', p, q});
    const int L = T ? 4 : 3;
    const size_t NA = alpha.size();
    // thorough, length 4: histories over S and M only (the O events are covered up to length 3)
    for (int len = 1; len <= L; ++len) {
        const size_t na = (len == 4) ? (size_t)(2 * NP) : NA;
        uint64_t total = 1;
        for (int i = 0; i < len; ++i) total *= na;
        {
            for (uint64_t idx = 0; idx < total; ++idx) {
                std::vector<Ev> h;
                uint64_t k = idx;
                bool has_thread = false;
                for (int i = 0; i < len; ++i) {
                    h.push_back(alpha[k % na]);
                    k /= na;
                    if (h.back().kind != 'M') has_thread = true;
                }
                if (!has_thread) continue;   // main-only histories are the reference side
                if (!ctx.take("thread.lifetime", P().kv("history", ev_str(PR, h)))) continue;
                ctx.nontrivial();
                fb::Result r = fb::run([&] { auto v = run_history(PR, h, false); fb::emit(ser(v) + (g_fpenv_changed ? "\n" : "")); }, 30.0);
                P par;
                if (r.kind != fb::RETURNED) {
                    ctx.fail("thread.history", fmt("%s (signal %d) stderr: %s", fb::kind_name(r.kind), r.sig, r.err.substr(0, 300).c_str()),
                             "history completes", par);
                    continue;
                }
                if (r.out.size() >= 2 && r.out.compare(r.out.size() - 2, 2, "\n\n") == 0)
                    ctx.fail("thread.fpenv", "an operation of the history changed the floating-point control state of its thread (MXCSR control bits / rounding mode)",
                             "library calls leave rounding mode, flush-to-zero and denormals-are-zero flags as the caller set them", par);
                auto got = deser(r.out);
                // main-thread side: same history without thread events, fresh process
                bool has_main = false;
                for (auto& e : h) has_main |= e.kind == 'M';
                std::vector<std::vector<uint64_t>> mref;
                if (has_main) {
                    fb::Result r2 = fb::run([&] { fb::emit(ser(run_history(PR, h, true))); }, 30.0);
                    mref = deser(r2.out);
                }
                size_t gi = 0, mi = 0;
                std::string bad;
                for (auto& e : h) {
                    auto cmp = [&](const std::vector<uint64_t>& exp, const std::string& who, const Prog& p) {
                        if (gi >= got.size() || got[gi] != exp) {
                            size_t k2 = 0;
                            while (gi < got.size() && k2 < exp.size() && k2 < got[gi].size() && got[gi][k2] == exp[k2]) ++k2;
                            if (bad.empty()) bad = fmt("%s running '%s': operation #%zu returns a different value than single-threaded", who.c_str(), p.name, k2);
                        }
                        ++gi;
                    };
                    if (e.kind == 'M') {
                        cmp(mi < mref.size() ? mref[mi] : std::vector<uint64_t>{}, "the main thread", PR[(size_t)e.p]);
                        ++mi;
                    } else if (e.kind == 'S') {
                        cmp(ref[(size_t)e.p], "a fresh thread", PR[(size_t)e.p]);
                    } else {
                        cmp(ref[(size_t)e.p], "fresh thread A (overlapping B)", PR[(size_t)e.p]);
                        cmp(ref[(size_t)e.q], "fresh thread B (started while A is alive)", PR[(size_t)e.q]);
                    }
                }
                if (!bad.empty())
                    ctx.fail("thread.history", bad, "every program returns what it returns in a fresh single-threaded process (main: what it returns with the thread events deleted)", par);
            }
        }
    }
    // ---- plan objects outlive the thread that built them ("transform plan objects may be shared"): a plan is built (and used once)
    // in a thread that then EXITS, other threads come and go (their TLS blocks and stacks reuse the memory), and the plan is used
    // from the main thread and from new threads.  A plan that keeps a pointer into its builder's thread-local storage dangles here.
    {
        struct PK {
            const char* name;
            std::function<std::function<uint64_t()>()> build;   // builds the plan, returns a closure that solves with it
        };
        const std::vector<PK> kinds = {
            {"FftPlan(8)", [] { auto p = std::make_shared<FftPlan>(8); return std::function<uint64_t()>([p] { return H(p->solve(cl(8, 41))); }); }},
            {"FftPlan(24)", [] { auto p = std::make_shared<FftPlan>(24); return std::function<uint64_t()>([p] { return H(p->solve(cl(24, 42))); }); }},
            {"FftPlan(60)", [] { auto p = std::make_shared<FftPlan>(60); return std::function<uint64_t()>([p] { return H(p->solve(cl(60, 43))); }); }},
            {"FftPlan(53)", [] { auto p = std::make_shared<FftPlan>(53); return std::function<uint64_t()>([p] { return H(p->solve(cl(53, 44))); }); }},
            {"FftPlan(1000)", [] { auto p = std::make_shared<FftPlan>(1000); return std::function<uint64_t()>([p] { return H(p->solve(cl(1000, 45))); }); }},
            {"FftPlanR(16)", [] { auto p = std::make_shared<FftPlanR>(16); return std::function<uint64_t()>([p] { return H(p->solve(rl(16, 46))); }); }},
            {"FftPlanR(30)", [] { auto p = std::make_shared<FftPlanR>(30); return std::function<uint64_t()>([p] { return H(p->solve(rl(30, 47))); }); }},
            {"IfftPlan(12)", [] { auto p = std::make_shared<IfftPlan>(12); return std::function<uint64_t()>([p] { return H(p->solve(cl(12, 48))); }); }},
            {"IfftPlanR(16)", [] { auto p = std::make_shared<IfftPlanR>(16); return std::function<uint64_t()>([p] { return H(p->solve(cl(9, 49))); }); }},
            {"CztPlan(5,7)", [] { auto p = std::make_shared<CztPlan>(5, 7, expj(-2 * pi / 7), cmplx_t(1, 0)); return std::function<uint64_t()>([p] { return H(p->solve(cl(5, 50))); }); }},
        };
        // histories: which threads come and go between the builder's exit and the uses
        const std::vector<std::vector<int>> between = {{}, {0}, {2}, {2, 0}, {3, 4, 2}};   // indices into PR (programs run by short-lived threads)
        for (auto& k : kinds) {
            // reference: built and used on the main thread of a fresh process
            uint64_t ref = 0;
            {
                fb::Result r = fb::run([&] { auto use = k.build(); fb::emit(std::to_string(use()) + "\n"); }, 30.0);
                if (r.kind != fb::RETURNED) {
                    fprintf(stderr, "reference run of plan %s failed: %s\n", k.name, fb::kind_name(r.kind));
                    return 4;
                }
                ref = strtoull(r.out.c_str(), nullptr, 10);
            }
            for (size_t bi = 0; bi < between.size(); ++bi) {
                for (int user = 0; user < 3; ++user) {   // 0: main uses, 1: a new thread uses, 2: a new thread, then main
                    std::string hist = "build in a thread that exits";
                    for (int pi : between[bi]) hist += std::string("; S(") + PR[(size_t)pi].name + ")";
                    hist += user == 0 ? "; main uses the plan" : (user == 1 ? "; a new thread uses the plan" : "; a new thread, then main use the plan");
                    if (!ctx.take("thread.plan_outlives_builder", P().kv("plan", k.name).kv("history", hist))) continue;
                    ctx.nontrivial();
                    fb::Result r = fb::run(
                        [&] {
                            std::function<uint64_t()> use;
                            uint64_t first = 0;
                            std::thread b([&] {
                                use = k.build();
                                first = use();
                            });
                            b.join();
                            for (int pi : between[bi]) {
                                std::thread t([&] { run_ops(PR[(size_t)pi], 0, PR[(size_t)pi].ops.size()); });
                                t.join();
                            }
                            std::string o = std::to_string(first) + "\n";
                            if (user >= 1) {
                                uint64_t v = 0;
                                std::thread t([&] { v = use(); });
                                t.join();
                                o += std::to_string(v) + "\n";
                            }
                            if (user != 1) o += std::to_string(use()) + "\n";
                            fb::emit(o);
                        },
                        30.0);
                    P par;
                    if (r.kind != fb::RETURNED) {
                        ctx.fail("thread.plan", fmt("%s (signal %d) stderr: %s", fb::kind_name(r.kind), r.sig, r.err.substr(0, 300).c_str()),
                                 "a plan object stays valid after the thread that built it has exited", par);
                        continue;
                    }
                    std::istringstream in(r.out);
                    uint64_t v;
                    int idx = 0;
                    while (in >> v) {
                        if (v != ref) {
                            ctx.fail("thread.plan", fmt("use #%d of the plan returns a different result than a plan built and used in a fresh single-threaded process", idx),
                                     "bit-identical result", par);
                            break;
                        }
                        ++idx;
                    }
                }
            }
        }
    }
    return ctx.finish();
}
