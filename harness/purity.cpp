// purity.cpp - call-history exploration for the *stateless* API of a property (engine E2, shared by several properties).
// Every free function (and every "construct, use, destroy" idiom) listed for the selected property is given up to four
// argument variants that keep the argument *shapes and addresses* but change contents or one scalar parameter (the
// argument arrays live in per-function persistent buffers that are overwritten in place, so a memo keyed by pointer,
// length or a subset of the parameters is hit).  ALL call sequences of length 2 and 3 over the variants are executed,
// each in a fresh thread; the result of every call must be bit-identical to the same call made as the first call of a
// fresh thread (a C++ exception is a result like any other).  This is what "the result depends only on the arguments"
// means for functions that are allowed to keep per-thread scratch, plan caches or memo tables.
//   usage: purity --prop Cxx  (+ the usual vf options)
#include "vf_fork.hpp"
#include <thread>
#include <atomic>
#include <cfenv>
#include <xmmintrin.h>

using namespace vf;
using namespace dsplib;

using Out = std::vector<double>;
static const double THROWN = -7.25e300;

static Out flat(const arr_cmplx& a) {
    Out o((size_t)a.size() * 2);
    for (int i = 0; i < a.size(); ++i) {
        o[2 * (size_t)i] = a[i].re;
        o[2 * (size_t)i + 1] = a[i].im;
    }
    return o;
}
static Out flat(const arr_real& a) { return Out(a.begin(), a.end()); }
static Out flat(const arr_int& a) { return Out(a.begin(), a.end()); }
static Out flat(double v) { return Out{v}; }
static Out flat(cmplx_t v) { return Out{v.re, v.im}; }
static Out cat(Out a, const Out& b) {
    a.push_back((double)a.size());
    a.insert(a.end(), b.begin(), b.end());
    return a;
}

// persistent argument buffers (one set per Fn): contents are overwritten in place, so data() stays the same
struct Arena {
    arr_real r1, r2, r3;
    arr_cmplx c1, c2;
};
static void fill(arr_real& a, int n, uint64_t tag, double scale = 1.0) {
    if (a.size() != n) a = arr_real(n);
    for (int i = 0; i < n; ++i) a[i] = scale * lcg_val(tag, (uint64_t)i);
}
static void fill(arr_cmplx& a, int n, uint64_t tag) {
    if (a.size() != n) a = arr_cmplx(n);
    for (int i = 0; i < n; ++i) a[i] = cmplx_t(lcg_val(tag, (uint64_t)i), lcg_val(tag + 50, (uint64_t)i));
}
static void perm(arr_real& a, int n, uint64_t tag) {   // tie-free permutation letter
    if (a.size() != n) a = arr_real(n);
    std::vector<std::pair<double, int>> v;
    for (int i = 0; i < n; ++i) v.push_back({lcg_val(tag, (uint64_t)i), i});
    std::sort(v.begin(), v.end());
    for (int i = 0; i < n; ++i) a[v[(size_t)i].second] = i + 1;
}

struct Fn {
    std::string prop, name;
    std::vector<std::function<Out(Arena&)>> var;
};

#define V(...) [](Arena& A) -> Out { (void)A; __VA_ARGS__ }

static std::vector<Fn> catalogue() {
    std::vector<Fn> F;
    auto add = [&](const char* prop, const char* name, std::vector<std::function<Out(Arena&)>> v) { F.push_back(Fn{prop, name, std::move(v)}); };
    // ------------------------------------------------------------------ C01 / C10: transforms
    for (const char* p : {"C10,C01"}) {
        add(p, "fft(cmplx)", {V(fill(A.c1, 12, 1); return flat(fft(A.c1));), V(fill(A.c1, 12, 2); return flat(fft(A.c1));), V(fill(A.c1, 16, 3); return flat(fft(A.c1));),
                              V(fill(A.c1, 53, 4); return flat(fft(A.c1));)});
        add(p, "fft(real)", {V(fill(A.r1, 30, 1); return flat(fft(A.r1));), V(fill(A.r1, 30, 2); return flat(fft(A.r1));), V(fill(A.r1, 15, 3); return flat(rfft(A.r1));),
                             V(fill(A.r1, 14, 4); return flat(rfft(A.r1));)});
        add(p, "fft(x,n)", {V(fill(A.c1, 20, 1); return flat(fft(A.c1, 16));), V(fill(A.c1, 12, 2); return flat(fft(A.c1, 16));), V(fill(A.c1, 5, 3); return flat(fft(A.c1, 16));),
                            V(fill(A.c1, 5, 4); return flat(fft(A.c1, 12));)});
        add(p, "rfft(x,n)", {V(fill(A.r1, 20, 1); return flat(rfft(A.r1, 16));), V(fill(A.r1, 12, 2); return flat(rfft(A.r1, 16));), V(fill(A.r1, 5, 3); return flat(rfft(A.r1, 16));),
                             V(fill(A.r1, 5, 3); return flat(fft(A.r1, 9));)});
        add(p, "czt", {V(fill(A.c1, 9, 1); return flat(czt(A.c1, 11, expj(-2 * pi / 11), cmplx_t(1, 0)));), V(fill(A.c1, 9, 1); return flat(czt(A.c1, 11, expj(-2 * pi / 11), cmplx_t(0.9, 0.2)));),
                       V(fill(A.c1, 9, 1); return flat(czt(A.c1, 11, expj(-2 * pi / 13), cmplx_t(0.9, 0.2)));), V(fill(A.c1, 9, 2); return flat(czt(A.c1, 7, expj(-2 * pi / 11)));)});
        add(p, "ifft/irfft", {V(fill(A.c1, 12, 1); return flat(ifft(A.c1));), V(fill(A.c1, 7, 2); return flat(irfft(A.c1, 12));), V(fill(A.c1, 7, 3); return flat(irfft(A.c1, 13));),
                              V(fill(A.c1, 8, 4); return flat(irfft(A.c1, 14));)});
    }
    // ------------------------------------------------------------------ C02
    add("C02", "irfft(x,n)", {V(fill(A.c1, 7, 1); return flat(irfft(A.c1, 12));), V(fill(A.c1, 7, 1); return flat(irfft(A.c1, 13));), V(fill(A.c1, 8, 1); return flat(irfft(A.c1, 14));),
                              V(fill(A.c1, 12, 2); return flat(irfft(A.c1));)});
    add("C02", "istft(stft)", {V(fill(A.r1, 40, 1); return flat(istft(stft(A.r1, 8), 8));), V(fill(A.r1, 40, 2); return flat(istft(stft(A.r1, 8), 8));),
                               V(fill(A.r1, 40, 1); return flat(istft(stft(A.r1, window::hann(8, false), 6, 8), window::hann(8, false), 6, 8));),
                               V(fill(A.r1, 19, 3); return flat(istft(stft(A.r1, window::hamming(8, false), 4, 8, StftRange::Centered), window::hamming(8, false), 4, 8, StftRange::Centered, OverlapMethod::Ola));)});
    add("C02", "stft(win,nov,nfft)", {V(fill(A.r1, 60, 1); auto S = stft(A.r1, window::hann(16, false), 8, 32); Out o; for (auto& f : S) o = cat(o, flat(f)); return o;),
                                      V(fill(A.r1, 60, 1); auto S = stft(A.r1, window::hann(8, false), 4, 32); Out o; for (auto& f : S) o = cat(o, flat(f)); return o;),
                                      V(fill(A.r1, 60, 1); auto S = stft(A.r1, window::hann(16, false), 12, 32); Out o; for (auto& f : S) o = cat(o, flat(f)); return o;),
                                      V(fill(A.r1, 60, 1); auto S = stft(A.r1, window::hann(16, false), 8, 32, StftRange::Twosided); Out o; for (auto& f : S) o = cat(o, flat(f)); return o;)});
    // ------------------------------------------------------------------ C07
    add("C07,C06", "FirFilterR(h).process", {V(fill(A.r1, 9, 1); fill(A.r2, 40, 5); FirFilterR f(A.r1); return flat(f.process(A.r2));), V(fill(A.r1, 9, 2); fill(A.r2, 40, 5); FirFilterR f(A.r1); return flat(f.process(A.r2));),
                                         V(fill(A.r1, 9, 2); fill(A.r2, 40, 6); FirFilterR f(A.r1); return flat(f.process(A.r2));), V(fill(A.r1, 8, 3); fill(A.r2, 40, 5); FirFilterR f(A.r1); return flat(f.process(A.r2));)});
    add("C07,C06", "FirFilterC(h).process", {V(fill(A.c1, 6, 1); fill(A.c2, 30, 5); FirFilterC f(A.c1); return flat(f.process(A.c2));), V(fill(A.c1, 6, 2); fill(A.c2, 30, 5); FirFilterC f(A.c1); return flat(f.process(A.c2));),
                                         V(fill(A.c1, 6, 1); fill(A.c2, 30, 5); FirFilterC f(A.c1); f.coeffs()[2] = cmplx_t(3, -1); return flat(f.process(A.c2));)});
    add("C07", "FirFilter::conv", {V(fill(A.r1, 30, 1); fill(A.r2, 7, 2); return flat(FirFilterR::conv(A.r1, A.r2));), V(fill(A.r1, 30, 1); fill(A.r2, 7, 3); return flat(FirFilterR::conv(A.r1, A.r2));),
                                   V(fill(A.r1, 30, 4); fill(A.r2, 7, 3); return flat(FirFilterR::conv(A.r1, A.r2));)});
    add("C07,C06", "FftFilter(h).process", {V(fill(A.r1, 9, 1); fill(A.r2, 64, 5); FftFilter f(A.r1); return flat(f.process(A.r2));), V(fill(A.r1, 9, 2); fill(A.r2, 64, 5); FftFilter f(A.r1); return flat(f.process(A.r2));),
                                        V(fill(A.r1, 5, 3); fill(A.r2, 64, 5); FftFilter f(A.r1); return flat(f.process(A.r2));)});
    add("C07", "xcorr", {V(fill(A.r1, 20, 1); fill(A.r2, 9, 2); return flat(xcorr(A.r1, A.r2));), V(fill(A.r1, 20, 3); fill(A.r2, 9, 2); return flat(xcorr(A.r1, A.r2));),
                         V(fill(A.c1, 20, 1); fill(A.c2, 9, 2); return flat(xcorr(A.c1, A.c2));), V(fill(A.r1, 12, 4); return flat(xcorr(A.r1));)});
    // ------------------------------------------------------------------ C08
    add("C08", "resample", {V(fill(A.r1, 30, 1); return flat(resample(A.r1, 3, 2));), V(fill(A.r1, 30, 2); return flat(resample(A.r1, 3, 2));), V(fill(A.r1, 30, 1); return flat(resample(A.r1, 2, 3));),
                            V(fill(A.r1, 30, 1); return flat(resample(A.r1, 3, 2, 4, 3.0));)});
    // one parameter at a time: the ratio (also ratios that share the filter order but not the cut-off), n, beta
    add("C08", "resample(p,q)", {V(fill(A.r1, 30, 1); return flat(resample(A.r1, 3, 5));), V(fill(A.r1, 30, 1); return flat(resample(A.r1, 3, 1));), V(fill(A.r1, 30, 1); return flat(resample(A.r1, 5, 3));),
                                 V(fill(A.r1, 30, 1); return flat(resample(A.r1, 1, 3));)});
    add("C08", "resample(n,beta)", {V(fill(A.r1, 30, 1); return flat(resample(A.r1, 3, 2, 10, 5.0));), V(fill(A.r1, 30, 1); return flat(resample(A.r1, 3, 2, 15, 5.0));), V(fill(A.r1, 30, 1); return flat(resample(A.r1, 3, 2, 10, 8.0));),
                                    V(fill(A.r1, 30, 1); return flat(resample(A.r1, 2, 1, 15, 5.0));)});
    add("C08,C06", "converters", {V(fill(A.r1, 24, 1); FIRRateConverter f(2, 3); return flat(f.process(A.r1));), V(fill(A.r1, 24, 1); FIRInterpolator f(2); return flat(f.process(A.r1));),
                              V(fill(A.r1, 24, 1); FIRDecimator f(3); return flat(f.process(A.r1));), V(fill(A.r1, 24, 1); FIRInterpolator f(3); return flat(f.process(A.r1));)});
    add("C08", "design_multirate_fir(L,M)", {V(return flat(design_multirate_fir(2, 3));), V(return flat(design_multirate_fir(2, 1));), V(return flat(design_multirate_fir(3, 1));), V(return flat(design_multirate_fir(1, 3));)});
    add("C08,C06", "FIRResampler(p,q).process", {V(fill(A.r1, 24, 1); FIRResampler f(3, 2); return flat(f.process(A.r1));), V(fill(A.r1, 24, 2); FIRResampler f(3, 2); return flat(f.process(A.r1));),
                                             V(fill(A.r1, 24, 1); FIRResampler f(6, 4); return flat(f.process(A.r1));), V(fill(A.r1, 24, 1); FIRResampler f(1, 2); return flat(f.process(A.r1));)});
    add("C08", "design_multirate_fir", {V(return flat(design_multirate_fir(3, 2));), V(return flat(design_multirate_fir(2, 3));), V(return flat(design_multirate_fir(3, 2, 6, 60));)});
    // ------------------------------------------------------------------ C11
    add("C11", "fir1", {V(return flat(fir1(12, 0.3));), V(return flat(fir1(12, 0.31));), V(return flat(fir1(12, 0.3, FilterType::High));), V(return flat(fir1(13, 0.3, FilterType::High));)});
    add("C11", "fir1(band)", {V(return flat(fir1(12, 0.2, 0.5));), V(return flat(fir1(12, 0.2, 0.6));), V(return flat(fir1(12, 0.2, 0.5, FilterType::Bandstop));)});
    add("C11", "fir1(win)", {V(fill(A.r1, 13, 1); return flat(fir1(12, 0.3, FilterType::Low, abs(A.r1) + 0.1));), V(fill(A.r1, 13, 2); return flat(fir1(12, 0.3, FilterType::Low, abs(A.r1) + 0.1));),
                             V(fill(A.r1, 13, 1); return flat(fir1(12, 0.4, FilterType::Low, abs(A.r1) + 0.1));)});
    add("C11", "kaiser", {V(return flat(window::kaiser(16, 5.0));), V(return flat(window::kaiser(16, 8.0));), V(return flat(window::kaiser(17, 5.0));), V(return flat(window::kaiser(16, 38.0));)});
    add("C11", "gauss/tukey", {V(return flat(window::gauss(16, 2.5));), V(return flat(window::gauss(16, 1.0));), V(return flat(window::tukey(16, 0.5));), V(return flat(window::tukey(16, 0.25));)});
    add("C11", "hann/hamming/blackman", {V(return flat(window::hann(16));), V(return flat(window::hann(16, false));), V(return flat(window::hamming(16));), V(return flat(window::blackman(16, false));)});
    // ------------------------------------------------------------------ C13
    add("C13", "welch(real)", {V(fill(A.r1, 64, 1); return cat(flat(welch(A.r1, 16).pxx), flat(welch(A.r1, 16).f));), V(fill(A.r1, 64, 2); return flat(welch(A.r1, 16).pxx);),
                               V(fill(A.r1, 64, 1); return flat(welch(A.r1, window::hann(16), 4, 16).pxx);), V(fill(A.r1, 64, 1); return flat(welch(A.r1, window::hann(16), 4, 32, SpectrumType::Power).pxx);)});
    add("C13", "welch(cmplx)", {V(fill(A.c1, 64, 1); return flat(welch(A.c1, 16).pxx);), V(fill(A.c1, 64, 2); return flat(welch(A.c1, 16).pxx);), V(fill(A.c1, 64, 1); return flat(welch(A.c1, 8, 2, 16).pxx);)});
    add("C13", "mscohere", {V(fill(A.r1, 64, 1); fill(A.r2, 64, 2); return flat(mscohere(A.r1, A.r2, 16));), V(fill(A.r1, 64, 1); fill(A.r2, 64, 3); return flat(mscohere(A.r1, A.r2, 16));),
                            V(fill(A.r1, 64, 1); fill(A.r2, 64, 2); return flat(mscohere(A.r1, A.r2, window::hann(16), 4, 16));)});
    // one parameter at a time: window length at a fixed nfft, overlap, nfft
    add("C13", "mscohere(win,nov,nfft)", {V(fill(A.r1, 96, 1); fill(A.r2, 96, 2); return flat(mscohere(A.r1, A.r2, window::hann(16), 4, 32));),
                                          V(fill(A.r1, 96, 1); fill(A.r2, 96, 2); return flat(mscohere(A.r1, A.r2, window::hann(8), 2, 32));),
                                          V(fill(A.r1, 96, 1); fill(A.r2, 96, 2); return flat(mscohere(A.r1, A.r2, window::hann(16), 8, 32));),
                                          V(fill(A.r1, 96, 1); fill(A.r2, 96, 2); return flat(mscohere(A.r1, A.r2, window::hann(16), 4, 16));)});
    add("C13", "welch(win,nov,nfft)", {V(fill(A.r1, 96, 1); return flat(welch(A.r1, window::hann(16), 4, 32).pxx);), V(fill(A.r1, 96, 1); return flat(welch(A.r1, window::hann(8), 2, 32).pxx);),
                                       V(fill(A.r1, 96, 1); return flat(welch(A.r1, window::hamming(16), 4, 32).pxx);), V(fill(A.c1, 96, 1); return flat(welch(A.c1, window::hann(8), 2, 32).pxx);)});
    // ------------------------------------------------------------------ C14
    add("C14", "hilbert", {V(fill(A.r1, 24, 1); return flat(hilbert(A.r1));), V(fill(A.r1, 24, 2); return flat(hilbert(A.r1));), V(fill(A.r1, 24, 1); return flat(hilbert(A.r1, 25));),
                           V(fill(A.r1, 25, 1); return flat(hilbert(A.r1, 24));)});
    add("C14,C06", "HilbertFilter(n).process", {V(fill(A.r1, 80, 1); HilbertFilter f(31, 0.05); return flat(f.process(A.r1));), V(fill(A.r1, 80, 2); HilbertFilter f(31, 0.05); return flat(f.process(A.r1));),
                                            V(fill(A.r1, 80, 1); HilbertFilter f(31, 0.1); return flat(f.process(A.r1));), V(fill(A.r1, 80, 1); HilbertFilter f(33, 0.05); return flat(f.process(A.r1));)});
    add("C14,C06", "Tuner(fs,f).process", {V(fill(A.c1, 40, 1); Tuner t(8, 1.25); return flat(t.process(A.c1));), V(fill(A.c1, 40, 2); Tuner t(8, 1.25); return flat(t.process(A.c1));),
                                       V(fill(A.c1, 40, 1); Tuner t(8, -2.5); return flat(t.process(A.c1));), V(fill(A.c1, 40, 1); Tuner t(9, 1.25); return flat(t.process(A.c1));)});
    // ------------------------------------------------------------------ C15
    add("C15", "isprime/factor", {V(return cat(flat((double)isprime(65537)), flat(factor(65537)));), V(return cat(flat((double)isprime(65536)), flat(factor(360360)));),
                                  V(return cat(flat((double)isprime(4294967291u)), flat(factor(4294836225u)));), V(return cat(flat((double)isprime(97)), flat(factor(97)));)});
    add("C15", "primes/nextprime", {V(return cat(flat(primes(300)), flat((double)nextprime(300)));), V(return cat(flat(primes(10)), flat((double)nextprime(70000)));),
                                    V(return cat(flat(primes(66049)), flat((double)nextprime(252)));)});
    add("C15", "primes(n) descending / prime arguments", {V(return flat(primes(1000));), V(return flat(primes(97));), V(return flat(primes(89));), V(return cat(flat(primes(7)), flat(primes(2)));)});
    add("C15", "nextprime / isprime after primes", {V(return cat(flat(primes(5000)), Out{(double)nextprime(97), (double)isprime(4999), (double)isprime(4997)});), V(return Out{(double)nextprime(97), (double)nextprime(90), (double)isprime(97)};),
                                                    V(return cat(flat(factor(9699690)), flat(primes(30)));), V(return cat(flat(primes(30)), flat(factor(97 * 89)));)});
    // ------------------------------------------------------------------ C16
    add("C16", "sort/median", {V(perm(A.r1, 9, 1); return cat(cat(flat(sort(A.r1).first), flat(sort(A.r1).second)), flat(median(A.r1)));),
                               V(perm(A.r1, 9, 2); return cat(cat(flat(sort(A.r1).first), flat(sort(A.r1).second)), flat(median(A.r1)));),
                               V(perm(A.r1, 9, 1); return cat(flat(sort(A.r1, Direction::Descend).first), flat(sort(A.r1, Direction::Descend).second));), V(perm(A.r1, 10, 3); return flat(median(A.r1));)});
    for (int t = 0; t < 3; ++t) {
        Correlation ty = t == 0 ? Correlation::Pearson : (t == 1 ? Correlation::Spearman : Correlation::Kendall);
        add("C16", t == 0 ? "corr(pearson)" : (t == 1 ? "corr(spearman)" : "corr(kendall)"),
            {[ty](Arena& A) -> Out { perm(A.r1, 12, 1); perm(A.r2, 12, 2); return flat(corr(A.r1, A.r2, ty)); }, [ty](Arena& A) -> Out { perm(A.r1, 12, 3); perm(A.r2, 12, 2); return flat(corr(A.r1, A.r2, ty)); },
             [ty](Arena& A) -> Out { perm(A.r1, 12, 1); perm(A.r2, 12, 4); return flat(corr(A.r1, A.r2, ty)); }, [ty](Arena& A) -> Out { perm(A.r1, 12, 2); perm(A.r2, 12, 1); return flat(corr(A.r1, A.r2, ty)); }});
    }
    add("C16,C06", "medfilt/MedianFilter", {V(perm(A.r1, 20, 1); return flat(medfilt(A.r1, 5));), V(perm(A.r1, 20, 2); return flat(medfilt(A.r1, 5));), V(perm(A.r1, 20, 1); MedianFilter m(5); return flat(m.process(A.r1));),
                                        V(perm(A.r1, 20, 1); MedianFilter m(4, -1); return flat(m.process(A.r1));)});
    // ------------------------------------------------------------------ C17
    add("C17", "reductions", {V(fill(A.r1, 17, 1); return Out{sum(A.r1), mean(A.r1), stddev(A.r1), rms(A.r1), norm(A.r1), norm(A.r1, 3), max(A.r1), min(A.r1), (double)argmax(A.r1), peak2peak(A.r1)};),
                              V(fill(A.r1, 17, 2); return Out{sum(A.r1), mean(A.r1), stddev(A.r1), rms(A.r1), norm(A.r1), norm(A.r1, 3), max(A.r1), min(A.r1), (double)argmax(A.r1), peak2peak(A.r1)};),
                              V(fill(A.r1, 17, 1, 1e8); A.r1 += 1e10; return Out{sum(A.r1), mean(A.r1), stddev(A.r1), rms(A.r1), norm(A.r1), norm(A.r1, 3), max(A.r1), min(A.r1), (double)argmax(A.r1), peak2peak(A.r1)};),
                              V(fill(A.c1, 17, 1); return cat(flat(sum(A.c1)), Out{stddev(A.c1), rms(A.c1), norm(A.c1), (double)argmin(A.c1)});)});
    add("C17", "elementwise", {V(fill(A.c1, 9, 1); return cat(cat(flat(exp(A.c1)), flat(angle(A.c1))), cat(flat(abs(A.c1)), flat(power(A.c1, 2.5))));), V(fill(A.c1, 9, 2); return cat(cat(flat(exp(A.c1)), flat(angle(A.c1))), cat(flat(abs(A.c1)), flat(power(A.c1, 2.5))));),
                               V(fill(A.c1, 9, 1); return cat(flat(power(A.c1, -3)), flat(round(A.c1 * 10)));), V(fill(A.r1, 9, 1); return cat(cat(flat(expj(A.r1)), flat(tanh(A.r1))), cat(flat(cumsum(A.r1)), flat(power(abs(A.r1), A.r1))));)});
    add("C17", "shape", {V(fill(A.r1, 12, 1); return cat(cat(flat(upsample(A.r1, 3, 1)), flat(downsample(A.r1, 3, 1))), cat(flat(repelem(A.r1, 2)), flat(delayseq(A.r1, 3))));),
                         V(fill(A.r1, 12, 1); return cat(cat(flat(upsample(A.r1, 3, 2)), flat(downsample(A.r1, 4, 1))), cat(flat(repelem(A.r1, 3)), flat(delayseq(A.r1, -3))));),
                         V(return cat(cat(flat(arange(0, 7, 3)), flat(arange(5, 0, -2))), cat(flat(linspace(0, 1, 5)), flat(arange(0.0, 1.0, 0.25))));), V(return cat(flat(arange(0, 1, -2)), flat(linspace(1, 0, 4)));)});
    // equal output length and phase, different factor (a scratch keyed by the output shape only)
    add("C17", "upsample / repelem (same output length)", {V(fill(A.r1, 6, 1); return flat(upsample(A.r1, 2, 0));), V(fill(A.r1, 4, 1); return flat(upsample(A.r1, 3, 0));), V(fill(A.r1, 3, 1); return flat(upsample(A.r1, 4, 0));),
                                                           V(fill(A.r1, 12, 1); return flat(upsample(A.r1, 1, 0));)});
    add("C17", "upsample(cmplx) / downsample (same output length)", {V(fill(A.c1, 4, 1); return flat(upsample(A.c1, 3, 1));), V(fill(A.c1, 3, 1); return flat(upsample(A.c1, 4, 1));),
                                                                     V(fill(A.r1, 24, 1); return cat(flat(downsample(A.r1, 2, 0)), flat(repelem(A.r1, 2)));), V(fill(A.r1, 36, 1); return cat(flat(downsample(A.r1, 3, 0)), flat(repelem(A.r1, 3)));)});
    add("C17", "dB/deg", {V(fill(A.r1, 9, 1); return cat(cat(flat(pow2db(abs(A.r1) + 1)), flat(db2mag(A.r1))), flat(deg2rad(A.r1)));), V(fill(A.r1, 9, 2); return cat(cat(flat(pow2db(abs(A.r1) + 1)), flat(db2mag(A.r1))), flat(deg2rad(A.r1)));)});
    // ------------------------------------------------------------------ C18
    add("C18", "finddelay/gccphat", {V(fill(A.r1, 64, 1); A.r2 = delayseq(A.r1, 5); return cat(flat((double)finddelay(A.r1, A.r2)), flat(gccphat(A.r2, A.r1, 8000).tau));),
                                     V(fill(A.r1, 64, 2); A.r2 = delayseq(A.r1, -7); return cat(flat((double)finddelay(A.r1, A.r2)), flat(gccphat(A.r2, A.r1, 8000).tau));),
                                     V(fill(A.r1, 64, 1); A.r2 = delayseq(A.r1, 5); return flat(gccphat(A.r2, A.r1, 1).tau);), V(fill(A.c1, 64, 1); A.c2 = delayseq(A.c1, 3); return flat((double)finddelay(A.c1, A.c2));)});
    add("C18", "PreambleDetector(h).process", {V(fill(A.c1, 16, 1); PreambleDetector d(A.c1, 0.5); if (d.frame_len() < 64) return Out{-2}; arr_cmplx s((int)d.frame_len()); for (int i = 0; i < 16; ++i) s[20 + i] = A.c1[i]; auto r = d.process(s);
                                                 return r ? cat(Out{(double)r->offset, r->score}, flat(r->preamble)) : Out{-1};),
                                               V(fill(A.c1, 16, 2); PreambleDetector d(A.c1, 0.5); if (d.frame_len() < 64) return Out{-2}; arr_cmplx s((int)d.frame_len()); for (int i = 0; i < 16; ++i) s[33 + i] = A.c1[i]; auto r = d.process(s);
                                                 return r ? cat(Out{(double)r->offset, r->score}, flat(r->preamble)) : Out{-1};),
                                               V(fill(A.c1, 16, 1); PreambleDetector d(A.c1, 0.9); arr_cmplx s((int)d.frame_len()); auto r = d.process(s); return r ? Out{(double)r->offset} : Out{-1};)});
    // ------------------------------------------------------------------ C19
    add("C19", "snr/sinad/thd", {V(fill(A.r1, 2048, 1, 1e-3); for (int i = 0; i < 2048; ++i) A.r1[i] += std::sin(2 * pi * 200.3 * i / 2048) + 0.1 * std::sin(2 * pi * 400.6 * i / 2048);
                                   return cat(Out{snr(A.r1), sinad(A.r1), thd(A.r1).value}, flat(thd(A.r1, 3).harmfreq));),
                                 V(fill(A.r1, 2048, 2, 1e-3); for (int i = 0; i < 2048; ++i) A.r1[i] += std::sin(2 * pi * 310.5 * i / 2048) + 0.03 * std::sin(2 * pi * 621.0 * i / 2048);
                                   return cat(Out{snr(A.r1), sinad(A.r1), thd(A.r1).value}, flat(thd(A.r1, 3).harmfreq));),
                                 V(fill(A.r1, 2049, 1, 1e-3); for (int i = 0; i < 2049; ++i) A.r1[i] += std::sin(2 * pi * 200.3 * i / 2049); return Out{snr(A.r1, 2), sinad(A.r1)};)});
    add("C19", "rng;draws", {V(rng(5); fill(A.r1, 5, 1); return cat(cat(flat(randn(5)), flat(dsplib::rand(3))), cat(flat(randi({-3, 3}, 4)), flat(awgn(A.r1, 10))));),
                             V(rng(6); fill(A.r1, 5, 1); return cat(cat(flat(randn(5)), flat(dsplib::rand(3))), cat(flat(randi({-3, 3}, 4)), flat(awgn(A.r1, 10))));),
                             V(rng(5); fill(A.c1, 4, 1); return cat(cat(flat(randn(4)), flat(randn())), flat(awgn(A.c1, 3)));), V(rng(5); return cat(flat(randi(9, 3)), flat(randn(3)));)});
    // ------------------------------------------------------------------ length variants: the same call on inputs of different
    // LENGTH inside one power-of-two bucket (a scratch buffer that is re-zeroed / re-sized only when the padded size changes
    // keeps the tail of a longer earlier input); every order of long/short is covered by the sequences
    add("C10,C01", "fft(prime lengths, one czt size)", {V(fill(A.c1, 53, 1); return flat(fft(A.c1));), V(fill(A.c1, 59, 1); return flat(fft(A.c1));), V(fill(A.c1, 61, 1); return flat(fft(A.c1));),
                                                    V(fill(A.c1, 47, 1); return flat(fft(A.c1));)});
    add("C02", "istft(stft) lengths", {V(fill(A.r1, 40, 1); return flat(istft(stft(A.r1, 8), 8));), V(fill(A.r1, 29, 1); return flat(istft(stft(A.r1, 8), 8));), V(fill(A.r1, 64, 1); return flat(istft(stft(A.r1, 8), 8));),
                                       V(fill(A.r1, 17, 1); return flat(istft(stft(A.r1, 8), 8));)});
    add("C07", "xcorr lengths", {V(fill(A.r1, 40, 1); fill(A.r2, 8, 2); return flat(xcorr(A.r1, A.r2));), V(fill(A.r1, 20, 1); fill(A.r2, 20, 2); return flat(xcorr(A.r1, A.r2));),
                                 V(fill(A.r1, 33, 1); fill(A.r2, 5, 2); return flat(xcorr(A.r1, A.r2));), V(fill(A.r1, 8, 1); fill(A.r2, 40, 2); return flat(xcorr(A.r1, A.r2));)});
    add("C07", "conv/FftFilter lengths", {V(fill(A.r1, 9, 1); fill(A.r2, 64, 5); FftFilter f(A.r1); return flat(f.process(A.r2));), V(fill(A.r1, 9, 1); fill(A.r2, 40, 5); FftFilter f(A.r1); return flat(f.process(A.r2));),
                                          V(fill(A.r1, 30, 1); fill(A.r2, 7, 2); return flat(FirFilterR::conv(A.r1, A.r2));), V(fill(A.r1, 19, 1); fill(A.r2, 7, 2); return flat(FirFilterR::conv(A.r1, A.r2));)});
    add("C08", "resample lengths", {V(fill(A.r1, 30, 1); return flat(resample(A.r1, 3, 2));), V(fill(A.r1, 20, 1); return flat(resample(A.r1, 3, 2));), V(fill(A.r1, 45, 1); return flat(resample(A.r1, 3, 2));),
                                    V(fill(A.r1, 17, 1); return flat(resample(A.r1, 3, 2));)});
    add("C13", "welch/mscohere lengths", {V(fill(A.r1, 200, 1); return flat(welch(A.r1, 16).pxx);), V(fill(A.r1, 130, 1); return flat(welch(A.r1, 16).pxx);),
                                          V(fill(A.r1, 200, 1); fill(A.r2, 200, 2); return flat(mscohere(A.r1, A.r2, 16));), V(fill(A.r1, 97, 1); fill(A.r2, 97, 2); return flat(mscohere(A.r1, A.r2, 16));)});
    add("C13", "welch(cmplx) lengths", {V(fill(A.c1, 200, 1); return flat(welch(A.c1, window::hann(8), 2, 16).pxx);), V(fill(A.c1, 130, 1); return flat(welch(A.c1, window::hann(8), 2, 16).pxx);),
                                        V(fill(A.c1, 97, 1); return flat(welch(A.c1, window::hann(8), 2, 16).pxx);)});
    add("C14", "hilbert(x,n) lengths", {V(fill(A.r1, 20, 1); return flat(hilbert(A.r1, 32));), V(fill(A.r1, 9, 1); return flat(hilbert(A.r1, 32));), V(fill(A.r1, 27, 1); return flat(hilbert(A.r1, 32));),
                                        V(fill(A.r1, 9, 1); return flat(hilbert(A.r1, 16));)});
    add("C14", "hilbert(x) lengths", {V(fill(A.r1, 60, 1); return flat(hilbert(A.r1));), V(fill(A.r1, 37, 1); return flat(hilbert(A.r1));), V(fill(A.r1, 53, 1); return flat(hilbert(A.r1));),
                                      V(fill(A.r1, 61, 1); return flat(hilbert(A.r1));)});
    add("C16", "sort/medfilt lengths", {V(perm(A.r1, 12, 1); return cat(flat(sort(A.r1).first), flat(medfilt(A.r1, 5)));), V(perm(A.r1, 7, 1); return cat(flat(sort(A.r1).first), flat(medfilt(A.r1, 5)));),
                                        V(perm(A.r1, 16, 1); return cat(flat(sort(A.r1).second), flat(medfilt(A.r1, 4)));), V(perm(A.r1, 9, 1); return cat(flat(sort(A.r1).second), flat(medfilt(A.r1, 4)));)});
    add("C17", "reductions/shape lengths", {V(fill(A.r1, 30, 1); return cat(Out{sum(A.r1), stddev(A.r1), norm(A.r1)}, flat(cumsum(A.r1)));), V(fill(A.r1, 9, 1); return cat(Out{sum(A.r1), stddev(A.r1), norm(A.r1)}, flat(cumsum(A.r1)));),
                                            V(fill(A.r1, 30, 1); return cat(flat(upsample(A.r1, 3)), flat(delayseq(A.r1, 4)));), V(fill(A.r1, 9, 1); return cat(flat(upsample(A.r1, 3)), flat(delayseq(A.r1, 4)));)});
    add("C18", "finddelay/gccphat lengths", {V(fill(A.r1, 100, 1); A.r2 = delayseq(A.r1, 5); return cat(flat((double)finddelay(A.r1, A.r2)), flat(gccphat(A.r2, A.r1, 8000).tau));),
                                             V(fill(A.r1, 70, 1); A.r2 = delayseq(A.r1, 5); return cat(flat((double)finddelay(A.r1, A.r2)), flat(gccphat(A.r2, A.r1, 8000).tau));),
                                             V(fill(A.r1, 120, 1, 50.0); A.r2 = delayseq(A.r1, -9); return cat(flat((double)finddelay(A.r1, A.r2)), flat(gccphat(A.r2, A.r1, 8000).tau));),
                                             V(fill(A.r1, 66, 1); A.r2 = delayseq(A.r1, -9); return cat(flat((double)finddelay(A.r1, A.r2)), flat(gccphat(A.r2, A.r1, 8000).tau));)});
    add("C18", "finddelay lengths (loud, then quiet and shorter)", {V(fill(A.r1, 1000, 1, 100.0); A.r2 = delayseq(A.r1, 37); return flat((double)finddelay(A.r1, A.r2));), V(fill(A.r1, 600, 2); A.r2 = delayseq(A.r1, -20); return flat((double)finddelay(A.r1, A.r2));),
                                                                     V(fill(A.c1, 1000, 3); for (int i = 0; i < 1000; ++i) A.c1[i] = A.c1[i] * 100.0; A.c2 = delayseq(A.c1, 90); return flat((double)finddelay(A.c1, A.c2));),
                                                                     V(fill(A.c1, 530, 4); A.c2 = delayseq(A.c1, -50); return flat((double)finddelay(A.c1, A.c2));)});
    add("C19", "measurement lengths", {V(fill(A.r1, 4096, 1, 1e-3); for (int i = 0; i < 4096; ++i) A.r1[i] += std::sin(2 * pi * 0.0731 * i) + 0.1 * std::sin(2 * pi * 0.1462 * i); return cat(Out{snr(A.r1), sinad(A.r1), thd(A.r1).value}, flat(thd(A.r1, 3).harmfreq));),
                                       V(fill(A.r1, 2100, 1, 1e-3); for (int i = 0; i < 2100; ++i) A.r1[i] += std::sin(2 * pi * 0.0731 * i) + 0.1 * std::sin(2 * pi * 0.1462 * i); return cat(Out{snr(A.r1), sinad(A.r1), thd(A.r1).value}, flat(thd(A.r1, 3).harmfreq));),
                                       V(fill(A.r1, 3000, 1, 1e-3); for (int i = 0; i < 3000; ++i) A.r1[i] += std::sin(2 * pi * 0.0731 * i) + 0.1 * std::sin(2 * pi * 0.1462 * i); return cat(Out{snr(A.r1), sinad(A.r1), thd(A.r1).value}, flat(thd(A.r1, 3).harmfreq));),
                                       V(fill(A.r1, 2049, 1, 1e-3); for (int i = 0; i < 2049; ++i) A.r1[i] += std::sin(2 * pi * 0.0731 * i) + 0.1 * std::sin(2 * pi * 0.1462 * i); return cat(Out{snr(A.r1), sinad(A.r1), thd(A.r1).value}, flat(thd(A.r1, 3).harmfreq));)});
    add("C19", "awgn lengths", {V(rng(5); fill(A.r1, 40, 1); return flat(awgn(A.r1, 10));), V(rng(5); fill(A.r1, 23, 1); return flat(awgn(A.r1, 10));), V(rng(5); fill(A.c1, 40, 1); return flat(awgn(A.c1, 10));),
                                V(rng(5); fill(A.c1, 23, 1); return flat(awgn(A.c1, 10));)});
    // ------------------------------------------------------------------ C06: "construct, use, destroy" of the stream processors that have
    // no entry above (a later object of the same shape must not inherit anything from an earlier one)
    add("C06", "Delay(n).process", {V(fill(A.r1, 30, 1); Delay<real_t> d(5); return flat(d.process(A.r1));), V(fill(A.r1, 30, 2); Delay<real_t> d(5); return flat(d.process(A.r1));),
                                    V(fill(A.r1, 30, 1); Delay<real_t> d(7); return flat(d.process(A.r1));), V(fill(A.c1, 30, 1); fill(A.c2, 5, 9); Delay<cmplx_t> d(A.c2); return flat(d.process(A.c1));)});
    add("C06", "Compressor/Limiter", {V(fill(A.r1, 200, 1); Compressor c(8000, -20.0, 4, 6.0, 0.001, 0.01); auto r = c.process(A.r1); return cat(flat(r.out), flat(r.gain));),
                                      V(fill(A.r1, 200, 2); Compressor c(8000, -20.0, 4, 6.0, 0.001, 0.01); auto r = c.process(A.r1); return cat(flat(r.out), flat(r.gain));),
                                      V(fill(A.r1, 200, 1); Compressor c(8000, -10.0, 2, 0.0, 0.0, 0.002); auto r = c.process(A.r1); return cat(flat(r.out), flat(r.gain));),
                                      V(fill(A.r1, 200, 1); Limiter c(8000, -15.0, 4.0, 0.0, 0.002); auto r = c.process(A.r1); return cat(flat(r.out), flat(r.gain));)});
    add("C06", "NoiseGate/Agc", {V(fill(A.r1, 200, 1); NoiseGate g(8000, -12.0, 0.001, 0.002, 0.002); auto r = g.process(A.r1); return cat(flat(r.out), flat(r.gain));),
                                 V(fill(A.r1, 200, 2); NoiseGate g(8000, -12.0, 0.001, 0.002, 0.002); auto r = g.process(A.r1); return cat(flat(r.out), flat(r.gain));),
                                 V(fill(A.r1, 200, 1); Agc a(1.0, 60.0, 10); auto r = a.process(A.r1); return cat(flat(r.out), flat(r.gain));),
                                 V(fill(A.r1, 200, 1); Agc a(0.5, 20.0, 16); auto r = a.process(A.r1); return cat(flat(r.out), flat(r.gain));)});
    // one parameter at a time for every stateful class: a value fixed by the FIRST object of the process (function-local static
    // initialised from the first instance's parameters) makes a later object with other parameters wrong
    add("C06,C20", "Limiter(T,W)", {V(fill(A.r1, 300, 1); Limiter c(8000, -3.0, 0.0, 0.0, 0.002); auto r = c.process(A.r1); return cat(flat(r.out), flat(r.gain));),
                                    V(fill(A.r1, 300, 1); Limiter c(8000, -20.0, 0.0, 0.0, 0.002); auto r = c.process(A.r1); return cat(flat(r.out), flat(r.gain));),
                                    V(fill(A.r1, 300, 1); Limiter c(8000, -20.0, 10.0, 0.0, 0.002); auto r = c.process(A.r1); return cat(flat(r.out), flat(r.gain));),
                                    V(fill(A.r1, 300, 1); Limiter c(48000, -40.0, 3.0, 0.001, 0.002); auto r = c.process(A.r1); return cat(flat(r.out), flat(r.gain));)});
    add("C06,C20", "Compressor(T,R,W)", {V(fill(A.r1, 300, 1); Compressor c(8000, -3.0, 4, 0.0, 0.0, 0.002); auto r = c.process(A.r1); return cat(flat(r.out), flat(r.gain));),
                                         V(fill(A.r1, 300, 1); Compressor c(8000, -30.0, 4, 0.0, 0.0, 0.002); auto r = c.process(A.r1); return cat(flat(r.out), flat(r.gain));),
                                         V(fill(A.r1, 300, 1); Compressor c(8000, -30.0, 10, 12.0, 0.0, 0.002); auto r = c.process(A.r1); return cat(flat(r.out), flat(r.gain));),
                                         V(fill(A.r1, 300, 1); Compressor c(48000, -30.0, 4, 0.0, 0.001, 0.004); auto r = c.process(A.r1); return cat(flat(r.out), flat(r.gain));)});
    add("C06,C20", "NoiseGate(thr,times) / Agc(target,max)", {V(fill(A.r1, 300, 1); NoiseGate g(8000, -6.0, 0.001, 0.002, 0.002); auto r = g.process(A.r1); return cat(flat(r.out), flat(r.gain));),
                                                              V(fill(A.r1, 300, 1); NoiseGate g(8000, -30.0, 0.0, 0.004, 0.0); auto r = g.process(A.r1); return cat(flat(r.out), flat(r.gain));),
                                                              V(fill(A.r1, 300, 1); Agc a(0.01, 20.0, 7); auto r = a.process(A.r1); return cat(flat(r.out), flat(r.gain));),
                                                              V(fill(A.r1, 300, 1); Agc a(4.0, 60.0, 100); auto r = a.process(A.r1); return cat(flat(r.out), flat(r.gain));)});
    add("C06,C12", "RlsFilter(lambda,delta) / LmsFilter(mu,leak)", {V(fill(A.r1, 60, 1); fill(A.r2, 60, 2); RlsFilterR f(4, 0.99, 1.0); auto r = f.process(A.r1, A.r2); return cat(cat(flat(r.y), flat(r.e)), flat(f.coeffs()));),
                                                                    V(fill(A.r1, 60, 1); fill(A.r2, 60, 2); RlsFilterR f(4, 0.90, 1.0); auto r = f.process(A.r1, A.r2); return cat(cat(flat(r.y), flat(r.e)), flat(f.coeffs()));),
                                                                    V(fill(A.r1, 60, 1); fill(A.r2, 60, 2); RlsFilterR f(4, 0.90, 100.0); auto r = f.process(A.r1, A.r2); return cat(cat(flat(r.y), flat(r.e)), flat(f.coeffs()));),
                                                                    V(fill(A.r1, 60, 1); fill(A.r2, 60, 2); LmsFilterR f(4, 0.01, LmsType::LMS, 0.9); auto r = f.process(A.r1, A.r2); return cat(cat(flat(r.y), flat(r.e)), flat(f.coeffs()));)});
    add("C06,C12", "RlsFilterC(lambda) / LmsFilterC(mu)", {V(fill(A.c1, 40, 1); fill(A.c2, 40, 2); RlsFilterC f(3, 0.99, 1.0); auto r = f.process(A.c1, A.c2); return cat(cat(flat(r.y), flat(r.e)), flat(f.coeffs()));),
                                                           V(fill(A.c1, 40, 1); fill(A.c2, 40, 2); RlsFilterC f(3, 0.90, 1.0); auto r = f.process(A.c1, A.c2); return cat(cat(flat(r.y), flat(r.e)), flat(f.coeffs()));),
                                                           V(fill(A.c1, 40, 1); fill(A.c2, 40, 2); LmsFilterC f(3, 0.05, LmsType::LMS, 1.0); auto r = f.process(A.c1, A.c2); return cat(cat(flat(r.y), flat(r.e)), flat(f.coeffs()));),
                                                           V(fill(A.c1, 40, 1); fill(A.c2, 40, 2); LmsFilterC f(3, 0.5, LmsType::NLMS, 0.99); auto r = f.process(A.c1, A.c2); return cat(cat(flat(r.y), flat(r.e)), flat(f.coeffs()));)});
    add("C06", "LmsFilter/RlsFilter", {V(fill(A.r1, 60, 1); fill(A.r2, 60, 2); LmsFilterR f(4, 0.05, LmsType::LMS, 0.999); auto r = f.process(A.r1, A.r2); return cat(cat(flat(r.y), flat(r.e)), flat(f.coeffs()));),
                                       V(fill(A.r1, 60, 3); fill(A.r2, 60, 2); LmsFilterR f(4, 0.05, LmsType::LMS, 0.999); auto r = f.process(A.r1, A.r2); return cat(cat(flat(r.y), flat(r.e)), flat(f.coeffs()));),
                                       V(fill(A.r1, 60, 1); fill(A.r2, 60, 2); LmsFilterR f(4, 0.5, LmsType::NLMS, 1.0); auto r = f.process(A.r1, A.r2); return cat(cat(flat(r.y), flat(r.e)), flat(f.coeffs()));),
                                       V(fill(A.r1, 60, 1); fill(A.r2, 60, 2); RlsFilterR f(4, 0.98, 10.0); auto r = f.process(A.r1, A.r2); return cat(cat(flat(r.y), flat(r.e)), flat(f.coeffs()));)});
    return F;
}

static bool same(const Out& a, const Out& b) { return a.size() == b.size() && (a.empty() || memcmp(a.data(), b.data(), a.size() * 8) == 0); }

// floating-point control state of the calling thread (rounding mode, flush-to-zero, denormals-are-zero, exception masks):
// a library call must leave it as it found it, or later arithmetic of the caller silently changes
static std::atomic<unsigned> g_fpenv_bad{0};
static unsigned fp_control() { return (_mm_getcsr() & 0xFFC0u) | ((unsigned)fegetround() << 16); }
static Out call(const std::function<Out(Arena&)>& v, Arena& A) {
    const unsigned csr0 = _mm_getcsr();
    const int rnd0 = fegetround();
    const unsigned before = fp_control();
    Out o;
    try {
        o = v(A);
    } catch (const std::exception&) {
        o = Out{THROWN};
    }
    const unsigned after = fp_control();
    if (after != before) {
        g_fpenv_bad.store(0x80000000u | ((before & 0xFFFFu) << 8) | ((after & 0xFFFFu) >> 6 & 0xFFu) | (after & 0xFF0000u));
        _mm_setcsr((_mm_getcsr() & 0x3Fu) | (csr0 & 0xFFC0u));
        fesetround(rnd0);
    }
    return o;
}
static void check_fpenv(ChildCtx& c, const std::string& fn, const std::string& where) {
    unsigned b = g_fpenv_bad.exchange(0);
    if (b)
        c.fail(fn.c_str(), fmt("%s: the call changed the floating-point control state of the calling thread (MXCSR control bits / rounding mode; code 0x%08x: FTZ = bit 15, DAZ = bit 6 of MXCSR)", where.c_str(), b),
               "rounding mode, flush-to-zero and denormals-are-zero flags are left as the caller set them", P().kv("aspect", "fpenv"));
}

// ------------------------------------------------------------------ homogeneity under power-of-two scaling
// f(2^k * x) must equal 2^(k*degree) * f(x) BIT FOR BIT (multiplication by a power of two is exact as long as nothing
// under- or overflows): linear transforms and filters (degree 1), power spectra (degree 2), scale-free statistics and
// estimators (degree 0).  An absolute threshold, floor, flush or tolerance inside such a computation breaks this for
// small or large units while every unit-scale test still passes.
struct Hom {
    std::string prop, name;
    int degree;
    std::function<Out(double)> f;   // argument: the scale applied to the (first) input
    int kmax = 300;                  // largest |k| used (scale-free estimators square their inputs twice: 100)
};
#define HV(...) [](double s) -> Out { (void)s; __VA_ARGS__ }
static arr_real rs(int n, uint64_t tag, double s) {
    arr_real a(n);
    for (int i = 0; i < n; ++i) a[i] = s * lcg_val(tag, (uint64_t)i);
    return a;
}
static arr_cmplx cs(int n, uint64_t tag, double s) {
    arr_cmplx a(n);
    for (int i = 0; i < n; ++i) a[i] = cmplx_t(s * lcg_val(tag, (uint64_t)i), s * lcg_val(tag + 50, (uint64_t)i));
    return a;
}
static arr_real ps(int n, uint64_t tag, double s) {   // tie-free permutation letter, scaled
    arr_real a;
    perm(a, n, tag);
    for (int i = 0; i < n; ++i) a[i] *= s;
    return a;
}
static Out app(Out a, const Out& b) {   // plain concatenation (no length marker: every value must scale)
    a.insert(a.end(), b.begin(), b.end());
    return a;
}
static std::vector<Hom> hom_catalogue() {
    std::vector<Hom> H;
    auto add = [&](const char* prop, const char* name, int deg, std::function<Out(double)> f, int kmax = 300) { H.push_back(Hom{prop, name, deg, std::move(f), kmax}); };
    add("C01,C10", "fft(cmplx 12/16/53)", 1, HV(return app(app(flat(fft(cs(12, 1, s))), flat(fft(cs(16, 2, s)))), flat(fft(cs(53, 3, s))));));
    add("C01,C10", "rfft / fft(real) / fft(x,n)", 1, HV(return app(app(flat(rfft(rs(30, 1, s))), flat(fft(rs(15, 2, s)))), flat(fft(cs(5, 3, s), 16)));));
    add("C01", "czt", 1, HV(return flat(czt(cs(9, 1, s), 11, expj(-2 * pi / 13), cmplx_t(0.9, 0.2)));));
    add("C02", "ifft / irfft", 1, HV(return app(app(flat(ifft(cs(12, 1, s))), flat(irfft(cs(7, 2, s), 12))), flat(ifft(cs(53, 3, s))));));
    add("C02", "istft(stft)", 1, HV(return flat(istft(stft(rs(40, 1, s), 8), 8));));
    add("C07,C06", "FirFilter / FftFilter (scaled input)", 1, HV(FirFilterR f(rs(9, 1, 1.0)); FftFilter g(rs(9, 1, 1.0)); FirFilterC h(cs(6, 2, 1.0)); return app(app(flat(f.process(rs(40, 5, s))), flat(g.process(rs(64, 5, s)))), flat(h.process(cs(30, 6, s))));));
    add("C07,C06", "FirFilter / FftFilter (scaled taps)", 1, HV(FirFilterR f(rs(9, 1, s)); FftFilter g(rs(9, 1, s)); FirFilterC h(cs(6, 2, s)); return app(app(flat(f.process(rs(40, 5, 1.0))), flat(g.process(rs(64, 5, 1.0)))), flat(h.process(cs(30, 6, 1.0))));));
    add("C07", "conv / xcorr (first operand scaled)", 1, HV(return app(app(flat(FirFilterR::conv(rs(30, 1, s), rs(7, 2, 1.0))), flat(xcorr(rs(20, 3, s), rs(9, 4, 1.0)))), flat(xcorr(cs(12, 5, s), cs(12, 6, 1.0))));));
    add("C07", "conv / xcorr (second operand scaled)", 1, HV(return app(app(flat(FirFilterR::conv(rs(30, 1, 1.0), rs(7, 2, s))), flat(xcorr(rs(20, 3, 1.0), rs(9, 4, s)))), flat(xcorr(cs(12, 5, 1.0), cs(12, 6, s))));));
    add("C07", "xcorr (auto)", 2, HV(return flat(xcorr(rs(12, 4, s)));));
    add("C08,C06", "resample / converters", 1, HV(FIRRateConverter a(2, 3); FIRInterpolator b(3); FIRDecimator d(3); return app(app(flat(resample(rs(30, 1, s), 3, 2)), flat(a.process(rs(24, 2, s)))), app(flat(b.process(rs(24, 3, s))), flat(d.process(rs(24, 4, s)))));));
    add("C13", "welch", 2, HV(return app(flat(welch(rs(96, 1, s), window::hann(16), 4, 32).pxx), flat(welch(cs(64, 2, s), 16).pxx));));
    add("C13", "mscohere (one signal scaled)", 0, HV(return flat(mscohere(rs(96, 1, s), rs(96, 2, 1.0), window::hann(16), 4, 32));), 100);
    add("C14,C06", "hilbert / HilbertFilter / Tuner", 1, HV(HilbertFilter f(31, 0.05); Tuner t(8, 1.25); return app(app(flat(hilbert(rs(24, 1, s))), flat(hilbert(rs(20, 2, s), 32))), app(flat(f.process(rs(80, 3, s))), flat(t.process(cs(40, 4, s)))));));
    add("C16", "sort / median / medfilt", 1, HV(MedianFilter m(5); auto v = ps(20, 3, s); return app(app(flat(sort(ps(9, 1, s)).first), flat(median(ps(10, 2, s)))), app(flat(medfilt(v, 5)), flat(m.process(ps(20, 4, s)))));));
    add("C16", "sort index / corr (first sample scaled)", 0, HV(return app(flat(sort(ps(9, 1, s)).second), Out{corr(ps(12, 1, s), ps(12, 2, 1.0), Correlation::Pearson), corr(ps(12, 1, s), ps(12, 2, 1.0), Correlation::Spearman), corr(ps(12, 1, s), ps(12, 2, 1.0), Correlation::Kendall)});), 100);
    add("C16", "corr (both samples scaled)", 0, HV(return Out{corr(ps(12, 1, s), ps(12, 2, s), Correlation::Pearson), corr(ps(12, 1, s), ps(12, 2, s), Correlation::Spearman), corr(ps(12, 1, s), ps(12, 2, s), Correlation::Kendall)};), 300);
    add("C17", "reductions", 1, HV(auto x = rs(17, 1, s); auto z = cs(17, 2, s); return app(Out{sum(x), mean(x), stddev(x), rms(x), norm(x), max(x), min(x), peak2peak(x), rms(z), norm(z), stddev(z)}, app(flat(cumsum(x)), app(flat(abs(z)), flat(sum(z)))));));
    add("C17", "angle / argmax", 0, HV(auto x = rs(17, 1, s); auto z = cs(17, 2, s); return app(flat(angle(z)), Out{(double)argmax(x), (double)argmin(x), (double)argmax(z)});));
    add("C18", "finddelay / gccphat", 0, HV(auto x = rs(64, 1, s); auto y = delayseq(x, 5); return app(flat((double)finddelay(x, y)), flat(gccphat(y, x, 8000).tau));), 100);
    add("C19", "snr / sinad / thd", 0, HV(arr_real x(2048); for (int i = 0; i < 2048; ++i) x[i] = s * (std::sin(2 * pi * 200.3 * i / 2048) + 0.1 * std::sin(2 * pi * 400.6 * i / 2048) + 1e-3 * lcg_val(1, (uint64_t)i)); return app(Out{snr(x), sinad(x), thd(x).value}, flat(thd(x, 3).harmfreq));), 100);
    add("C19", "awgn", 1, HV(rng(5); auto a = awgn(rs(40, 1, s), 10.5); rng(5); auto b = awgn(cs(40, 2, s), 3); return app(flat(a), flat(b));));
    return H;
}

// ------------------------------------------------------------------ arguments are inputs: a call must not modify the arrays it is given
// (they are passed by const reference; a transform done "in place" on the caller's buffer, a scratch that aliases the input or a
// normalisation applied to the argument itself would change the caller's data)
struct Imm {
    std::string prop, name;
    std::function<std::string()> f;   // "" = every argument is bit-identical after the call(s), else what changed
};
template<class A>
static bool same_arr(const A& a, const A& b) {
    return a.size() == b.size() && (a.size() == 0 || memcmp(a.data(), b.data(), sizeof(a[0]) * (size_t)a.size()) == 0);
}
#define IM(...) []() -> std::string { __VA_ARGS__ return ""; }
#define KEEP(x, call)                                                              \
    {                                                                              \
        auto _c = x;                                                               \
        const void* _p = (const void*)x.data();                                    \
        try {                                                                      \
            call;                                                                  \
        } catch (const std::exception&) {                                          \
        }                                                                          \
        if (!same_arr(x, _c) || (const void*)x.data() != _p) return std::string(#call) + " modified its argument " #x; \
    }
static std::vector<Imm> imm_catalogue() {
    std::vector<Imm> I;
    auto add = [&](const char* prop, const char* name, std::function<std::string()> f) { I.push_back(Imm{prop, name, std::move(f)}); };
    add("C01,C10", "transforms", IM(auto c = cs(16, 1, 1.0); auto d = cs(53, 2, 1.0); auto e = cs(12, 3, 1.0); auto r = rs(30, 4, 1.0); auto q = rs(15, 5, 1.0);
                                   KEEP(c, (void)fft(c)) KEEP(d, (void)fft(d)) KEEP(e, (void)fft(e)) KEEP(r, (void)rfft(r)) KEEP(q, (void)fft(q)) KEEP(e, (void)fft(e, 16)) KEEP(e, (void)fft(e, 8))
                                   KEEP(c, FftPlan p(16); (void)p.solve(c)) KEEP(r, FftPlanR p(30); (void)p.solve(r)) KEEP(e, (void)czt(e, 7, expj(-2 * pi / 9), cmplx_t(0.9, 0.2)))));
    add("C02", "inverse transforms", IM(auto c = cs(16, 1, 1.0); auto d = cs(53, 2, 1.0); auto h = cs(7, 3, 1.0); auto r = rs(40, 4, 1.0);
                                        KEEP(c, (void)ifft(c)) KEEP(d, (void)ifft(d)) KEEP(h, (void)irfft(h, 12)) KEEP(h, (void)irfft(h, 13)) KEEP(c, (void)irfft(c)) KEEP(r, (void)stft(r, 8))
                                        auto S = stft(r, 8); auto S0 = S; (void)istft(S, 8); for (size_t i = 0; i < S.size(); ++i) if (!same_arr(S[i], S0[i])) return std::string("istft modified its spectrogram argument");));
    add("C07,C06", "filters / correlation", IM(auto h = rs(9, 1, 1.0); auto x = rs(64, 2, 1.0); auto hc = cs(6, 3, 1.0); auto xc = cs(30, 4, 1.0); auto a = rs(20, 5, 1.0); auto b = rs(9, 6, 1.0);
                                               KEEP(x, FirFilterR f(h); (void)f.process(x)) KEEP(h, FirFilterR f(h); (void)f.process(x)) KEEP(x, FftFilter f(h); (void)f.process(x)) KEEP(h, FftFilter f(h); (void)f.process(x))
                                               KEEP(xc, FirFilterC f(hc); (void)f.process(xc)) KEEP(a, (void)xcorr(a, b)) KEEP(b, (void)xcorr(a, b)) KEEP(a, (void)xcorr(a)) KEEP(xc, (void)xcorr(xc, xc))
                                               KEEP(a, (void)FirFilterR::conv(a, b)) KEEP(b, (void)FirFilterR::conv(a, b))));
    add("C08,C06", "resample / converters", IM(auto x = rs(30, 1, 1.0); auto h = rs(13, 2, 1.0);
                                               KEEP(x, (void)resample(x, 3, 2)) KEEP(x, (void)resample(x, 2, 3)) KEEP(x, FIRRateConverter f(2, 3); (void)f.process(x)) KEEP(x, FIRInterpolator f(3); (void)f.process(x))
                                               KEEP(x, FIRDecimator f(3); (void)f.process(x)) KEEP(x, FIRResampler f(3, 2); (void)f.process(x)) KEEP(h, FIRDecimator f(3, h); (void)f.process(x)) KEEP(h, (void)resample(x, 3, 2, h))));
    add("C11", "designs", IM(auto w = abs(rs(13, 1, 1.0)) + 0.1; KEEP(w, (void)fir1(12, 0.3, FilterType::Low, w)) KEEP(w, (void)fir1(12, 0.2, 0.5, FilterType::Bandpass, w))));
    add("C13", "spectra", IM(auto x = rs(96, 1, 1.0); auto y = rs(96, 2, 1.0); auto z = cs(64, 3, 1.0); auto w = window::hann(16);
                             KEEP(x, (void)welch(x, 16)) KEEP(x, (void)welch(x, w, 4, 32)) KEEP(w, (void)welch(x, w, 4, 32)) KEEP(z, (void)welch(z, 16)) KEEP(x, (void)mscohere(x, y, 16)) KEEP(y, (void)mscohere(x, y, 16))
                             KEEP(w, (void)mscohere(x, y, w, 4, 16))));
    add("C14,C06", "analytic", IM(auto x = rs(24, 1, 1.0); auto c = cs(40, 2, 1.0); auto l = rs(80, 3, 1.0);
                                  KEEP(x, (void)hilbert(x)) KEEP(x, (void)hilbert(x, 32)) KEEP(x, (void)hilbert(x, 16)) KEEP(l, HilbertFilter f(31, 0.05); (void)f.process(l)) KEEP(c, Tuner t(8, 1.25); (void)t.process(c))));
    add("C16,C06", "order statistics", IM(auto x = ps(12, 1, 1.0); auto y = ps(12, 2, 1.0);
                                          KEEP(x, (void)sort(x)) KEEP(x, (void)sort(x, Direction::Descend)) KEEP(x, (void)median(x)) KEEP(x, (void)medfilt(x, 5)) KEEP(x, MedianFilter m(5); (void)m.process(x))
                                          KEEP(x, (void)corr(x, y, Correlation::Pearson)) KEEP(y, (void)corr(x, y, Correlation::Spearman)) KEEP(x, (void)corr(x, y, Correlation::Kendall)) KEEP(y, (void)corr(x, y, Correlation::Kendall))));
    add("C17", "elementary / reductions", IM(auto x = rs(17, 1, 1.0); auto z = cs(17, 2, 1.0);
                                             KEEP(x, (void)sum(x); (void)mean(x); (void)stddev(x); (void)rms(x); (void)norm(x); (void)max(x); (void)argmax(x); (void)cumsum(x); (void)cumsum(x, Direction::Reverse))
                                             KEEP(z, (void)sum(z); (void)rms(z); (void)abs(z); (void)angle(z); (void)exp(z); (void)power(z, 2.5); (void)power(z, -2); (void)tanh(z); (void)round(z))
                                             KEEP(x, (void)exp(x); (void)expj(x); (void)tanh(x); (void)power(x, 2); (void)power(2.0, x); (void)pow2db(abs(x) + 1); (void)db2mag(x); (void)upsample(x, 3); (void)downsample(x, 3, 1);
                                                  (void)repelem(x, 2); (void)delayseq(x, 3); (void)flip(x); (void)zeropad(x, 30))));
    add("C18", "delay estimators", IM(auto x = rs(64, 1, 1.0); auto y = delayseq(x, 5); auto c = cs(64, 2, 1.0); auto d = delayseq(c, 3);
                                      KEEP(x, (void)finddelay(x, y)) KEEP(y, (void)finddelay(x, y)) KEEP(x, (void)gccphat(y, x, 8000)) KEEP(y, (void)gccphat(y, x, 8000)) KEEP(c, (void)finddelay(c, d))
                                      KEEP(c, PreambleDetector p(cs(16, 3, 1.0), 0.5); arr_cmplx s((int)p.frame_len()); (void)p.process(s); (void)c)));
    add("C19", "measurements / noise", IM(arr_real x(2048); for (int i = 0; i < 2048; ++i) x[i] = std::sin(2 * pi * 200.3 * i / 2048) + 1e-3 * lcg_val(1, (uint64_t)i); auto c = cs(40, 2, 1.0);
                                          KEEP(x, (void)snr(x)) KEEP(x, (void)sinad(x)) KEEP(x, (void)thd(x)) KEEP(x, (void)awgn(x, 10)) KEEP(c, (void)awgn(c, 3))));
    add("C20,C06", "dynamics", IM(auto x = rs(200, 1, 1.0); auto c = cs(100, 2, 1.0);
                                  KEEP(x, Compressor p(8000, -20.0, 4, 6.0, 0.001, 0.01); (void)p.process(x)) KEEP(x, Limiter p(8000, -15.0, 4.0, 0.0, 0.002); (void)p.process(x))
                                  KEEP(x, NoiseGate p(8000, -12.0, 0.001, 0.002, 0.002); (void)p.process(x)) KEEP(x, Agc p(1.0, 60.0, 10); (void)p.process(x)) KEEP(c, Agc p(1.0, 60.0, 10); (void)p.process(c))));
    add("C12,C06", "adaptive filters", IM(auto x = rs(60, 1, 1.0); auto d = rs(60, 2, 1.0); auto xc = cs(40, 3, 1.0); auto dc = cs(40, 4, 1.0);
                                          KEEP(x, LmsFilterR f(4, 0.05, LmsType::LMS, 0.999); (void)f.process(x, d)) KEEP(d, LmsFilterR f(4, 0.5, LmsType::NLMS, 1.0); (void)f.process(x, d))
                                          KEEP(x, RlsFilterR f(4, 0.98, 10.0); (void)f.process(x, d)) KEEP(d, RlsFilterR f(4, 0.98, 10.0); (void)f.process(x, d)) KEEP(xc, RlsFilterC f(4, 0.95, 1.0); (void)f.process(xc, dc))
                                          KEEP(dc, LmsFilterC f(4, 0.5, LmsType::NLMS, 0.99); (void)f.process(xc, dc))));
    return I;
}

int main(int argc, char** argv) {
    std::string prop = "C10";
    for (int i = 1; i + 1 < argc; ++i)
        if (std::string(argv[i]) == "--prop") prop = argv[i + 1];
    Ctx ctx;
    ctx.parse(argc, argv, prop.c_str());
    auto F = catalogue();
    for (auto& f : F) {
        if (("," + f.prop + ",").find("," + prop + ",") == std::string::npos) continue;   // prop may be a comma-separated list
        const int nv = (int)f.var.size();
        std::string chk = "purity." + f.name;
        if (!ctx.take(chk.c_str(), P().kv("fn", f.name).kv("variants", nv))) continue;
        // references of the second kind: each variant as the first call of a fresh PROCESS (a value fixed by the first call of the
        // process - a function-local static initialised from the first object's parameters - is invisible to the fresh-thread
        // references below, which are all computed in one process)
        std::vector<Out> pfresh((size_t)nv);
        std::vector<char> pfresh_ok((size_t)nv, 0);
        for (int v = 0; v < nv; ++v) {
            fb::Result r = fb::run(
                [&] {
                    Out o;
                    std::thread t([&] {
                        Arena A;
                        o = call(f.var[(size_t)v], A);
                    });
                    t.join();
                    std::string hex;
                    char buf[20];
                    for (double d : o) {
                        uint64_t u;
                        memcpy(&u, &d, 8);
                        snprintf(buf, sizeof buf, "%016llx", (unsigned long long)u);
                        hex += buf;
                    }
                    fb::emit(hex + "\n");
                },
                120.0);
            if (r.kind == fb::RETURNED && !r.out.empty() && r.out.back() == '\n' && (r.out.size() - 1) % 16 == 0) {
                const size_t n = (r.out.size() - 1) / 16;
                pfresh[(size_t)v].resize(n);
                for (size_t i = 0; i < n; ++i) {
                    uint64_t u = strtoull(r.out.substr(i * 16, 16).c_str(), nullptr, 16);
                    memcpy(&pfresh[(size_t)v][i], &u, 8);
                }
                pfresh_ok[(size_t)v] = 1;
            }
        }
        // one forked child per function: a call that does not return or corrupts memory is an observed outcome
        auto o = forked(ctx, f.name.c_str(), 120.0, [&](ChildCtx& c) {
            // references: each variant as the first call of a fresh thread (twice: must be deterministic)
            std::vector<Out> fresh((size_t)nv);
            for (int v = 0; v < nv; ++v) {
                for (int rep = 0; rep < 2; ++rep) {
                    Out o;
                    fb::shm()->prog[0] = -1 - v;
                    std::thread t([&] {
                        Arena A;
                        o = call(f.var[(size_t)v], A);
                    });
                    t.join();
                    check_fpenv(c, f.name, fmt("variant %d as the first call of a fresh thread", v));
                    if (rep == 0) fresh[(size_t)v] = o;
                    else if (!same(fresh[(size_t)v], o)) {
                        c.fail(f.name.c_str(), fmt("variant %d: the first call of a fresh thread is not deterministic", v), "deterministic function");
                        return;
                    }
                }
            }
            for (int v = 0; v < nv; ++v) {
                if (!pfresh_ok[(size_t)v]) continue;   // the fresh process did not return: reported by the sequences below if it is a defect
                ++c.evals;
                if (!same(fresh[(size_t)v], pfresh[(size_t)v])) {
                    size_t k = 0;
                    const Out &a = fresh[(size_t)v], &b = pfresh[(size_t)v];
                    while (k < a.size() && k < b.size() && biteq(a[k], b[k])) ++k;
                    c.fail(f.name.c_str(), fmt("variant %d as the first call of a fresh thread AFTER variants 0..%d ran in other threads of this process returns %zu values, element %zu = %.17g; as the first call of a fresh process: %zu values, element %zu = %.17g",
                                               v, v - 1, a.size(), k, k < a.size() ? a[k] : 0.0, b.size(), k, k < b.size() ? b[k] : 0.0),
                           "bit-identical result: the result does not depend on what other objects / threads of the process did before", P().kv("aspect", "process-fresh").kv("variant", v));
                }
            }
            for (int L = 2; L <= 3; ++L) {
                int total = 1;
                for (int i = 0; i < L; ++i) total *= nv;
                for (int code = 0; code < total; ++code) {
                    std::vector<int> seq;
                    int cc = code;
                    for (int i = 0; i < L; ++i) {
                        seq.push_back(cc % nv);
                        cc /= nv;
                    }
                    fb::shm()->prog[0] = code + 1000 * L;
                    ++c.evals;
                    ++c.nontriv;
                    std::string err;
                    std::thread t([&] {
                        Arena A;
                        for (int i = 0; i < L; ++i) {
                            Out o = call(f.var[(size_t)seq[(size_t)i]], A);
                            if (!same(o, fresh[(size_t)seq[(size_t)i]]) && err.empty()) {
                                size_t k = 0;
                                const Out& r = fresh[(size_t)seq[(size_t)i]];
                                while (k < o.size() && k < r.size() && biteq(o[k], r[k])) ++k;
                                err = fmt("call %d (variant %d) of the sequence returns %zu values, element %zu = %.17g; as the first call of a fresh thread: %zu values, element %zu = %.17g%s",
                                          i, seq[(size_t)i], o.size(), k, k < o.size() ? o[k] : 0.0, r.size(), k, k < r.size() ? r[k] : 0.0,
                                          (o.size() == 1 && o[0] == THROWN) ? " (threw)" : ((r.size() == 1 && r[0] == THROWN) ? " (fresh call throws)" : ""));
                            }
                        }
                    });
                    t.join();
                    check_fpenv(c, f.name, "sequence " + show(seq));
                    if (!err.empty()) c.fail(f.name.c_str(), "sequence " + show(seq) + ": " + err, "bit-identical result: the result depends only on the arguments", P().list("seq", seq));
                }
            }
        });
        ctx.traces += ctx.checks[chk].evals;
        ctx.transitions += 3 * ctx.checks[chk].evals;
        ctx.state(fnv(chk));
        (void)o;
    }
    // ---- arguments are left untouched
    for (auto& im : imm_catalogue()) {
        if (("," + im.prop + ",").find("," + prop + ",") == std::string::npos) continue;
        std::string chk = "inputs." + im.name;
        if (!ctx.take(chk.c_str(), P().kv("fn", im.name))) continue;
        ctx.nontrivial();
        forked(ctx, im.name.c_str(), 120.0, [&](ChildCtx& c) {
            ++c.evals;
            std::string e = im.f();
            if (!e.empty()) c.fail(im.name.c_str(), e, "arguments passed by const reference are bit-identical (and at the same address) after the call");
        });
        ctx.state(fnv(chk));
    }
    // ---- homogeneity under power-of-two scaling
    for (auto& h : hom_catalogue()) {
        if (("," + h.prop + ",").find("," + prop + ",") == std::string::npos) continue;
        std::string chk = "scale." + h.name;
        if (!ctx.take(chk.c_str(), P().kv("fn", h.name).kv("degree", h.degree))) continue;
        forked(ctx, h.name.c_str(), 120.0, [&](ChildCtx& c) {
            auto run = [&](double sc) -> Out {
                try {
                    return h.f(sc);
                } catch (const std::exception&) {
                    return Out{THROWN};
                }
            };
            const Out base = run(1.0);
            for (int k : {-300, -100, -40, 40, 100, 300}) {
                if (std::abs(k) > h.kmax) continue;
                ++c.evals;
                ++c.nontriv;
                const double sc = std::ldexp(1.0, k);
                const Out o = run(sc);
                if (o.size() != base.size()) {
                    c.fail(h.name.c_str(), fmt("input scaled by 2^%d: %zu values instead of %zu%s", k, o.size(), base.size(), (o.size() == 1 && o[0] == THROWN) ? " (threw)" : ""),
                           "same shape as at unit scale", P().kv("k", k));
                    continue;
                }
                for (size_t i = 0; i < o.size(); ++i) {
                    const double want = std::ldexp(base[i], k * h.degree);
                    if (std::isnan(base[i]) && std::isnan(o[i])) continue;
                    // skip values whose exact image is not a normal double (the scaling itself would round)
                    if (want != 0 && (!std::isfinite(want) || std::fabs(want) < 1e-290 || std::fabs(want) > 1e290)) continue;
                    if (!biteq(o[i], want) && !(o[i] == 0 && want == 0)) {
                        c.fail(h.name.c_str(), fmt("input scaled by 2^%d: value %zu = %.17g, at unit scale %.17g, exact image %.17g (degree %d)", k, i, o[i], base[i], want, h.degree),
                               "f(2^k x) = 2^(k*degree) f(x) bit for bit (scaling by a power of two is exact)", P().kv("k", k));
                        break;
                    }
                }
            }
        });
        ctx.state(fnv(chk));
    }
    return ctx.finish();
}
