// C08 - multirate converters equal the zero-stuff / filter / decimate definition; resample() length and alignment.
// Engine E1 (bounded-exhaustive enumeration of (class, L, M, h) configurations, input letters and framings).
//
// Class level (check "chain"): for FIRInterpolator(L,h), FIRDecimator(M,h), FIRRateConverter(L,M,h), FIRResampler(L,M,h)
// the reference chain is evaluated in long double:  w = conv(zero-stuff_L(x), h*L/sum(h)),  y[i] = w[i*M + t].
// The statement asks for "a fixed phase": the check decides  EXISTS integer t, |t| <= len(h)+L+M, FOR ALL letters,
// input positions and framings of the configuration:  |y[i] - w[i*M+t]| <= 1e-12 * max|w|   (max|w| >= max|y|: weaker
// reading of "relative to max|y|", needed because a sparse letter can have an all-zero phase).  The candidate set of t
// is intersected over all runs; an empty set is a violation.  The surviving t is compared with the value derived from
// the code (0 / M-1-pad / M-1) only as a coverage note.  Every process() call must return exactly len*L/M samples and
// frame lengths that are not a multiple of M must be rejected with an exception (check "chain.reject").
//
// resample(): length p'*ceil(len/q') and no exception (checks "resample.len", "resample.h"), p == q returns x bit for
// bit, alignment (check "resample.align"): centroid of a band-limited Gaussian pulse and phase of an in-band tone,
// |shift| <= 1 output sample (+1e-6 for the measurement, which is exact for symmetric filters up to ~1e-9).
#include "vf.hpp"
#include <array>
#include <memory>
#include <numeric>

using namespace vf;
using dsplib::arr_real;

enum Kind { INTERP = 0, DECIM = 1, RATE = 2, RESAMPLER = 3 };
static const char* KNAME[] = {"interp", "decim", "rateconv", "resampler"};

static std::unique_ptr<dsplib::IResampler> make(Kind k, int L, int M, int mul, const arr_real* h) {
    using namespace dsplib;
    switch (k) {
    case INTERP: return h ? std::make_unique<FIRInterpolator>(L, *h) : std::make_unique<FIRInterpolator>(L);
    case DECIM: return h ? std::make_unique<FIRDecimator>(M, *h) : std::make_unique<FIRDecimator>(M);
    case RATE: return h ? std::make_unique<FIRRateConverter>(L, M, *h) : std::make_unique<FIRRateConverter>(L, M);
    default: return h ? std::make_unique<FIRResampler>(L * mul, M * mul, *h) : std::make_unique<FIRResampler>(L * mul, M * mul);
    }
}

// ------------------------------------------------------------------------------------------------ reference chain
struct Chain {
    int L = 1, M = 1;
    std::vector<ld> g;        // h * L / sum(h)
    std::vector<int> nz;      // indices of non-zero taps
    void set(const std::vector<double>& h, int L_, int M_) {
        L = L_;
        M = M_;
        ld s = 0;
        for (double v : h) s += v;
        g.resize(h.size());
        nz.clear();
        for (size_t k = 0; k < h.size(); ++k) {
            g[k] = (ld)h[k] * (ld)L / s;
            if (h[k] != 0) nz.push_back((int)k);
        }
    }
};

struct Letter {
    std::string name;
    int pos = 0;
    std::vector<double> x;
    std::vector<int> xnz;
    bool sparse = false;
    std::vector<ld> w;   // dense chain output before decimation (only if !sparse)
    ld wmax = 0;
};

static void prepare(Letter& lt, const Chain& c) {
    lt.xnz.clear();
    for (size_t n = 0; n < lt.x.size(); ++n)
        if (lt.x[n] != 0) lt.xnz.push_back((int)n);
    lt.sparse = lt.xnz.size() <= 2;
    lt.wmax = 0;
    if (lt.sparse) {
        // max|w| over the whole chain output
        std::map<long, ld> acc;
        for (int n : lt.xnz)
            for (int k : c.nz) acc[(long)n * c.L + k] += (ld)lt.x[(size_t)n] * c.g[(size_t)k];
        for (auto& kv : acc) lt.wmax = std::max(lt.wmax, fabsl(kv.second));
    } else {
        lt.w.assign(lt.x.size() * (size_t)c.L + c.g.size(), 0);
        for (int n : lt.xnz) {
            ld* wp = lt.w.data() + (size_t)n * c.L;
            const ld xv = lt.x[(size_t)n];
            for (int k : c.nz) wp[k] += xv * c.g[(size_t)k];
        }
        for (ld v : lt.w) lt.wmax = std::max(lt.wmax, fabsl(v));
    }
}

static inline ld wref(const Letter& lt, const Chain& c, long u) {
    if (u < 0) return 0;
    if (!lt.sparse) return (size_t)u < lt.w.size() ? lt.w[(size_t)u] : 0;
    ld s = 0;
    for (int n : lt.xnz) {
        long k = u - (long)n * c.L;
        if (k >= 0 && (size_t)k < c.g.size()) s += (ld)lt.x[(size_t)n] * c.g[(size_t)k];
    }
    return s;
}

// ------------------------------------------------------------------------------------------------ running the real object
struct RunOut {
    std::vector<double> y;
    std::string err;   // non-empty: exception text or wrong per-call size
    bool threw = false;
};

static RunOut run(Kind k, int L, int M, int mul, const arr_real* h, const std::vector<double>& x, int frame) {
    RunOut r;
    try {
        auto o = make(k, L, M, mul, h);
        size_t pos = 0;
        const size_t F = frame > 0 ? (size_t)frame : std::max<size_t>(x.size(), 1);
        // frame < 0: mixed framing pattern -frame (frame lengths in units of M, cycled; 0 = empty frame)
        static const std::vector<std::vector<int>> PAT = {{}, {1, 3, 2}, {4, 1, 1, 2}, {2, 0, 3, 0, 1}};
        size_t step = 0;
        do {
            size_t n = std::min(F, x.size() - pos);
            if (frame < 0) {
                const auto& pt = PAT[(size_t)(-frame)];
                n = std::min((size_t)pt[step++ % pt.size()] * (size_t)M, x.size() - pos);
            }
            arr_real in((int)n);
            for (size_t i = 0; i < n; ++i) in[(int)i] = x[pos + i];
            arr_real out = o->process(in);
            const long want = (long)n * L / M;
            if (out.size() != want) {
                r.err = fmt("process(%zu samples) returned %d samples", n, out.size());
                return r;
            }
            for (int i = 0; i < out.size(); ++i) r.y.push_back(out[i]);
            pos += n;
        } while (pos < x.size());
    } catch (const std::exception& e) {
        r.err = std::string("exception: ") + e.what();
        r.threw = true;
    }
    return r;
}

static std::vector<double> sym_pair(int n, int j) {
    std::vector<double> h((size_t)n, 0.0);
    h[(size_t)j] = 1.0;
    h[(size_t)(n - 1 - j)] = 1.0;
    return h;
}
// dense symmetric letter, mostly positive so that sum(h) is well conditioned (|sum h| ~ 0.25 n, sum|h| ~ 0.45 n)
static std::vector<double> sym_dense(int n) {
    std::vector<double> h((size_t)n);
    for (int k = 0; k < n; ++k) h[(size_t)k] = 0.25 + 0.75 * lcg_val(801, (uint64_t)std::min(k, n - 1 - k));
    return h;
}
static arr_real to_arr(const std::vector<double>& v) {
    arr_real a((int)v.size());
    for (size_t i = 0; i < v.size(); ++i) a[(int)i] = v[i];
    return a;
}

// ------------------------------------------------------------------------------------------------ one configuration
static bool g_deep = false;   // thorough tier: more framings per configuration (frames M..8M, three mixed patterns incl. empty frames)

static void chain_case(Ctx& ctx, Kind kind, int L, int M, int mul, const std::string& hk, int nh, int j, bool light) {
    const char* site = kind == INTERP ? "FIRInterpolator::process"
                       : kind == DECIM ? "FIRDecimator::process"
                       : kind == RATE  ? "FIRRateConverter::process"
                                       : "FIRResampler::process";
    std::vector<double> h;
    arr_real ha;
    const arr_real* hp = nullptr;
    try {
        if (hk == "default") {
            arr_real d = dsplib::design_multirate_fir(L, M);   // what every default constructor uses (ratio simplified inside)
            h.assign(d.begin(), d.end());
        } else {
            h = hk == "pair" ? sym_pair(nh, j) : sym_dense(nh);
            ha = to_arr(h);
            hp = &ha;
        }
    } catch (const std::exception& e) {
        ctx.fail("design_multirate_fir", fmt("exception: %s", e.what()), "a coefficient vector");
        return;
    }
    Chain c;
    c.set(h, L, M);
    const int nhl = (int)h.size();
    const bool bypass = (kind == RESAMPLER && L == 1 && M == 1);
    // input long enough to show the complete response to the last impulse position, multiple of M, at least 6M
    const int npos = 2 * M + 2;
    int nin = npos + (nhl + L - 1) / L + 1;
    nin = std::max(((nin + M - 1) / M) * M, 6 * M);
    // letters
    std::vector<Letter> letters;
    auto add_imp = [&](int p) {
        Letter lt;
        lt.name = "imp";
        lt.pos = p;
        lt.x.assign((size_t)nin, 0.0);
        lt.x[(size_t)p] = 1.0 + 0.125 * p;
        letters.push_back(std::move(lt));
    };
    if (light) {
        for (int p : {0, 1, M - 1, M, M + 1, 2 * M - 1, 2 * M, 2 * M + 1})
            if (p >= 0 && p < npos && (letters.empty() || letters.back().pos < p)) add_imp(p);
    } else {
        for (int p = 0; p < npos; ++p) add_imp(p);
    }
    {
        Letter lt;
        lt.name = "lcg";
        lt.x.resize((size_t)nin);
        for (int n = 0; n < nin; ++n) lt.x[(size_t)n] = lcg_val(811, (uint64_t)n);
        letters.push_back(lt);
        lt.name = "ramp";
        for (int n = 0; n < nin; ++n) lt.x[(size_t)n] = n + 1;
        letters.push_back(lt);
    }
    // candidate phases
    const long R = (long)nhl + L + M;
    std::vector<long> T;
    bool first = true;
    const long nout = (long)nin * L / M;
    long runs = 0;
    bool failed = false;
    double worst = 0;
    for (auto& lt : letters) {
        if (failed) break;
        prepare(lt, c);
        const double tol = 1e-12 * (double)lt.wmax;
        std::vector<int> frames = {0};
        if (lt.name == "imp") {
            frames.push_back(M);
            if (g_deep) frames.push_back(2 * M), frames.push_back(-1);
        } else {
            for (int f = 1; f <= (g_deep ? 8 : 6); ++f) frames.push_back(f * M);
            if (g_deep) frames.push_back(-1), frames.push_back(-2), frames.push_back(-3);
        }
        for (int fr : frames) {
            RunOut r = run(kind, L, M, mul, hp, lt.x, fr);
            ++runs;
            const P det = P().kv("in", lt.name).kv("pos", lt.pos).kv("frame", fr);
            if (!r.err.empty()) {
                ctx.fail(site, r.err, fmt("len*L/M samples per call (framing code %d), no exception", fr),
                         P(det).kv("what", r.threw ? "throw" : "size"));
                failed = true;
                break;
            }
            if ((long)r.y.size() != nout) {
                ctx.fail(site, fmt("%zu samples in total", r.y.size()), fmt("%ld", nout), P(det).kv("what", "size"));
                failed = true;
                break;
            }
            bool fin = true;
            for (double v : r.y) fin = fin && std::isfinite(v);
            if (!fin) {
                ctx.fail(site, "non-finite output", "finite samples of the reference chain", P(det).kv("what", "nonfinite"));
                failed = true;
                break;
            }
            auto matches = [&](long t, long* badi, double* bade) {
                for (long i = 0; i < nout; ++i) {
                    const double e = (double)fabsl((ld)r.y[(size_t)i] - wref(lt, c, i * M + t));
                    if (e > tol) {
                        if (badi) *badi = i, *bade = e;
                        return false;
                    }
                }
                return true;
            };
            std::vector<long> keep;
            if (first) {
                for (long t = -R; t <= R; ++t)
                    if (matches(t, nullptr, nullptr)) keep.push_back(t);
                first = false;
            } else {
                for (long t : T)
                    if (matches(t, nullptr, nullptr)) keep.push_back(t);
            }
            if (keep.empty()) {
                long bi = -1;
                double be = 0;
                std::string prev = "none in [-R,R]";
                if (!T.empty()) {
                    matches(T[0], &bi, &be);
                    prev = fmt("t=%ld (of %zu candidates left) fails at y[%ld] by %.3g", T[0], T.size(), bi, be);
                }
                ctx.fail(site, fmt("no fixed phase reproduces the output: %s; tol %.3g", prev.c_str(), tol),
                         "y[i] = w[i*M+t] for one integer t over all letters and framings",
                         P(det).kv("what", "value").kv("i", bi).kv("t", T.empty() ? -999999L : T[0]));
                failed = true;
                break;
            }
            T.swap(keep);
            // margin of the first surviving candidate
            if (tol > 0) {
                double me = 0;
                for (long i = 0; i < nout; ++i)
                    me = std::max(me, (double)fabsl((ld)r.y[(size_t)i] - wref(lt, c, i * M + T[0])));
                worst = std::max(worst, me / tol);
            }
        }
    }
    ctx.worst("chain max|y-ref| / (1e-12 max|w|)", worst);
    ctx.note(fmt("chain runs %s", KNAME[kind]), runs);
    if (!failed && !T.empty()) {
        const int nhp = ((nhl + M - 1) / M) * M;
        long derived = kind == INTERP ? 0 : kind == DECIM ? (M - 1 - (nhp - nhl)) : kind == RATE ? (M - 1) : -1;
        if (kind == RESAMPLER) derived = bypass ? 0 : (L == 1 ? (M - 1 - (nhp - nhl)) : (M == 1 ? 0 : M - 1));
        bool has = std::find(T.begin(), T.end(), derived) != T.end();
        ctx.note(fmt("phase %s: %s", KNAME[kind], has ? (T.size() == 1 ? "unique = derived from code" : "ambiguous, contains derived")
                                                       : "differs from derived"));
    }
    if (nhl >= 2 && (L > 1 || M > 1)) ctx.nontrivial();
}

// frame lengths that are not a multiple of M must throw; 0 and multiples must be accepted
static void reject_case(Ctx& ctx, Kind kind, int L, int M) {
    const char* site = KNAME[kind];
    for (int len = 0; len <= 2 * M + 1; ++len) {
        std::vector<double> x((size_t)len, 0.5);
        RunOut r = run(kind, L, M, 1, nullptr, x, 0);
        const bool mult = (len % M) == 0;
        if (mult && !r.err.empty())
            ctx.fail(site, fmt("frame of %d samples: %s", len, r.err.c_str()), fmt("%d samples", len * L / M), P().kv("len", len).kv("what", "accept"));
        if (!mult && !r.threw)
            ctx.fail(site, fmt("frame of %d samples accepted (%zu samples returned%s)", len, r.y.size(), r.err.empty() ? "" : ", wrong size"),
                     fmt("exception: frame length is not a multiple of M=%d", M), P().kv("len", len).kv("what", "reject"));
        if (!mult) ctx.note("non-multiple frame rejected", r.threw ? 1 : 0);
    }
    if (M > 1) ctx.nontrivial();
}

// ------------------------------------------------------------------------------------------------ scale invariance with framing
// The converters are linear and threshold free: a multi-frame history fed with the input multiplied by 2^e must give the
// unit-scale output times 2^e - within the chain tolerance relative to the record's own amplitude and, as on the unchanged
// tree, bit for bit (no intermediate under- or overflows for e in {-110, -300, -600, +300}).  At least 3 frames per history.
static void chain_scale_case(Ctx& ctx, Kind kind, int L, int M, int mul, const std::string& hk, int nh) {
    const char* site = kind == INTERP ? "FIRInterpolator::process"
                       : kind == DECIM ? "FIRDecimator::process"
                       : kind == RATE  ? "FIRRateConverter::process"
                                       : "FIRResampler::process";
    arr_real ha;
    const arr_real* hp = nullptr;
    int hl = nh;
    try {
        if (hk != "default") {
            ha = to_arr(sym_dense(nh));
            hp = &ha;
        } else {
            hl = dsplib::design_multirate_fir(L, M).size();
        }
    } catch (const std::exception& e) {
        ctx.fail("design_multirate_fir", fmt("exception: %s", e.what()), "a coefficient vector", P().kv("what", "throw"));
        return;
    }
    // long enough for the history to matter in every frame: >= 12 frames of M and >= 2 filter lengths
    const int nin = M * std::max(12, 2 * ((hl / L + M) / M) + 6);
    std::vector<double> x((size_t)nin);
    for (int n = 0; n < nin; ++n) x[(size_t)n] = lcg_val(861, (uint64_t)n);
    long nbit = 0;
    for (int fr : {M, 2 * M, -1, -2}) {
        RunOut y1 = run(kind, L, M, mul, hp, x, fr);
        if (!y1.err.empty()) {
            ctx.fail(site, y1.err, "no exception, len*L/M samples per call", P().kv("frame", fr).kv("e", 0).kv("what", y1.threw ? "throw" : "size"));
            return;
        }
        double ymax = 0;
        for (double v : y1.y) ymax = std::max(ymax, std::fabs(v));
        for (int e : {-110, -300, -600, 300}) {
            std::vector<double> xs((size_t)nin);
            for (int n = 0; n < nin; ++n) xs[(size_t)n] = std::ldexp(x[(size_t)n], e);
            RunOut ys = run(kind, L, M, mul, hp, xs, fr);
            const P det = P().kv("frame", fr).kv("e", e);
            if (!ys.err.empty() || ys.y.size() != y1.y.size()) {
                ctx.fail(site, ys.err.empty() ? fmt("%zu samples", ys.y.size()) : ys.err, fmt("%zu samples as at unit scale", y1.y.size()), P(det).kv("what", "size"));
                continue;
            }
            long bad = -1, bbit = -1;
            for (size_t i = 0; i < y1.y.size(); ++i) {
                const double back = (double)ldexpl((ld)ys.y[i], -e);
                if (bad < 0 && !(std::fabs(back - y1.y[i]) <= 1e-12 * ymax)) bad = (long)i;
                if (bbit < 0 && !biteq(ys.y[i], std::ldexp(y1.y[i], e))) bbit = (long)i;
            }
            if (bad >= 0)
                ctx.fail(site,
                         fmt("input scaled by 2^%d, framing code %d: y[%ld]*2^%d = %.17g, unit-scale output %.17g (relative deviation %.3g of max|y|)", e, fr, bad, -e,
                             (double)ldexpl((ld)ys.y[(size_t)bad], -e), y1.y[(size_t)bad], std::fabs((double)ldexpl((ld)ys.y[(size_t)bad], -e) - y1.y[(size_t)bad]) / ymax),
                         "the unit-scale output times the same power of two (1e-12 max|y|)", P(det).kv("i", bad).kv("what", "value"));
            else if (bbit >= 0)
                ctx.fail(site, fmt("input scaled by 2^%d, framing code %d: y[%ld] is not bit-identical to the scaled unit output", e, fr, bbit),
                         "bit-identical scaling of a threshold-free linear computation", P(det).kv("i", bbit).kv("what", "bitscale"));
            else
                ++nbit;
        }
    }
    ctx.note(fmt("chain.scale bit-exact histories %s", KNAME[kind]), nbit);
    ctx.nontrivial();
}

// "rejecting frame lengths that are not a multiple of M": a rejected call must leave the converter unchanged.  ONE object is fed
// good frame, rejected frame (every non-multiple length <= 2M+1 in turn, must throw), good frame, rejected frame, ...; the good
// frames' outputs must be bit-identical to those of a fresh object that is fed the good frames only (which the "chain" check ties
// to the reference chain at the configuration's fixed phase for every framing).
static void reject_state_case(Ctx& ctx, Kind kind, int L, int M, int mul, const std::string& hk, int nh) {
    const char* site = kind == DECIM ? "FIRDecimator::process" : kind == RATE ? "FIRRateConverter::process" : "FIRResampler::process";
    arr_real ha;
    const arr_real* hp = nullptr;
    if (hk != "default") {
        ha = to_arr(sym_dense(nh));
        hp = &ha;
    }
    try {
        auto a = make(kind, L, M, mul, hp);   // sees good and rejected frames
        auto b = make(kind, L, M, mul, hp);   // sees the good frames only
        std::vector<int> bad;
        for (int len = 1; len <= 2 * M + 1; ++len)
            if (len % M != 0) bad.push_back(len);
        long pos = 0, rejected = 0;
        for (size_t s = 0; s <= bad.size(); ++s) {
            const int g = M * (1 + (int)(s % 3));
            arr_real in(g);
            for (int i = 0; i < g; ++i) in[i] = lcg_val(831, (uint64_t)(pos + i));
            pos += g;
            arr_real ya = a->process(in), yb = b->process(in);
            const long want = (long)g * L / M;
            const int prev_bad = s ? bad[s - 1] : 0;
            if (ya.size() != want || yb.size() != want) {
                ctx.fail(site, fmt("good frame of %d samples returned %d / %d samples", g, ya.size(), yb.size()), fmt("%ld", want),
                         P().kv("step", (long)s).kv("badlen", prev_bad).kv("what", "size"));
                return;
            }
            if (!bitsame(ya, yb)) {
                int i0 = 0;
                while (i0 < ya.size() && biteq(ya[i0], yb[i0])) ++i0;
                ctx.fail(site,
                         fmt("after the rejected frame of %d samples the next good frame (%d samples, step %zu) gives y[%d]=%.17g, a fresh "
                             "object fed the good frames only gives %.17g",
                             prev_bad, g, s, i0, ya[i0], yb[i0]),
                         "a rejected call leaves the converter unchanged (bit-identical output)",
                         P().kv("step", (long)s).kv("badlen", prev_bad).kv("i", i0).kv("what", "state"));
                return;
            }
            if (s == bad.size()) break;
            // the rejected frame: different, large content so that consuming it is visible
            arr_real bf(bad[s]);
            for (int i = 0; i < bad[s]; ++i) bf[i] = 1000.0 + 100.0 * lcg_val(832, (uint64_t)(pos + i));
            bool threw = false;
            try {
                arr_real y = a->process(bf);
            } catch (const std::exception&) {
                threw = true;
            }
            if (!threw) {
                ctx.fail(site, fmt("frame of %d samples accepted", bad[s]), fmt("exception: frame length is not a multiple of M=%d", M),
                         P().kv("step", (long)s).kv("badlen", bad[s]).kv("what", "reject"));
                return;
            }
            ++rejected;
        }
        ctx.note(fmt("reject.state rejected frames %s", KNAME[kind]), rejected);
    } catch (const std::exception& e) {
        ctx.fail(site, fmt("exception on a good frame: %s", e.what()), "no exception", P().kv("what", "throw"));
    }
    ctx.nontrivial();
}

static void getters_case(Ctx& ctx, Kind kind, int L, int M, int mul) {
    try {
        auto o = make(kind, L, M, mul, nullptr);
        if (o->interp_rate() != L || o->decim_rate() != M)
            ctx.fail("interp_rate/decim_rate", fmt("%d/%d", o->interp_rate(), o->decim_rate()), fmt("%d/%d", L, M), P().kv("what", "rates"));
        for (int s = 0; s <= 4 * M; ++s) {
            const int nx = ((s + M - 1) / M) * M, pv = (s / M) * M;
            if (o->next_size(s) != nx)
                ctx.fail("next_size", fmt("next_size(%d)=%d", s, o->next_size(s)), fmt("%d", nx), P().kv("s", s).kv("what", "next"));
            if (o->prev_size(s) != pv)
                ctx.fail("prev_size", fmt("prev_size(%d)=%d", s, o->prev_size(s)), fmt("%d", pv), P().kv("s", s).kv("what", "prev"));
            for (int f = 1; f <= 3; ++f) {
                if (dsplib::IResampler::next_size(s, L * f, M * f) != nx || dsplib::IResampler::prev_size(s, L * f, M * f) != pv)
                    ctx.fail("IResampler::next_size/prev_size",
                             fmt("(%d,%d,%d) -> %d/%d", s, L * f, M * f, dsplib::IResampler::next_size(s, L * f, M * f),
                                 dsplib::IResampler::prev_size(s, L * f, M * f)),
                             fmt("%d/%d", nx, pv), P().kv("s", s).kv("f", f).kv("what", "static"));
            }
        }
        auto sp = dsplib::IResampler::simplify(L * mul * 3, M * mul * 3);
        if (sp.first != L || sp.second != M)
            ctx.fail("IResampler::simplify", fmt("%d/%d", sp.first, sp.second), fmt("%d/%d", L, M), P().kv("what", "simplify"));
        if (o->delay() < 0) ctx.fail("delay", fmt("%d", o->delay()), ">= 0", P().kv("what", "delay"));
        if (kind == RESAMPLER && !(L == 1 && M == 1)) {
            // the wrapper must report the delay of the class it selected
            Kind sel = (M == 1) ? INTERP : (L == 1 ? DECIM : RATE);
            auto u = make(sel, L, M, 1, nullptr);
            if (u->delay() != o->delay())
                ctx.fail("FIRResampler::delay", fmt("%d", o->delay()), fmt("%d (delay of the selected %s)", u->delay(), KNAME[sel]),
                         P().kv("what", "delegation"));
            ctx.note(fmt("FIRResampler selects %s", KNAME[sel]));
        }
    } catch (const std::exception& e) {
        ctx.fail("getters", fmt("exception: %s", e.what()), "no exception", P().kv("what", "throw"));
    }
    if (M > 1) ctx.nontrivial();
}

// ------------------------------------------------------------------------------------------------ resample()
static long expected_len(long len, int p, int q) {
    const int g = std::gcd(p, q);
    const long pr = p / g, qr = q / g;
    return pr * ((len + qr - 1) / qr);
}
static std::vector<int> resample_lens(int q) {
    std::set<int> s = {1, q - 1, q, q + 1, 5 * q + 3, 200 * q};
    s.erase(0);
    return std::vector<int>(s.begin(), s.end());
}
static const char* path_of(int p, int q) {
    const int g = std::gcd(p, q);
    const int L = p / g, M = q / g;
    return (L == M) ? "bypass" : (M == 1 ? "interp" : (L == 1 ? "decim" : "rateconv"));
}

// call one overload: mode 0 resample(x,p,q,n)  1 resample(x,p,q,n,beta)  2 resample(x,p,q,h)
static bool call_resample(int mode, const arr_real& x, int p, int q, int n, double beta, const arr_real* h, arr_real& y, std::string& err) {
    try {
        if (mode == 0) y = dsplib::resample(x, p, q, n);
        else if (mode == 1) y = dsplib::resample(x, p, q, n, beta);
        else y = dsplib::resample(x, p, q, *h);
        return true;
    } catch (const std::exception& e) {
        err = e.what();
        return false;
    }
}

// ---- signature of defect F11 (pinned tree): resample() pads the input by floor(delay*q'/p') samples and then slices
// [delay, delay + ny) out of the converter output, which is too short whenever the floor loses a fraction.
static bool f11_throws(int L, int M, long dl, long len) {
    const long nx = ((len + M - 1) / M) * M, ny = nx * L / M;
    const long mdl = dl * M / L;
    const long nn = ((nx + mdl + M - 1) / M) * M;
    return nn * L / M < dl + ny;
}
// length of the filter designed by resample(x, p, q, n, beta) (lib/resample/resample.cpp:_multirate_fir)
static int design_len(int L, int M, int n) {
    const bool special = (M > L) && (L > 1) && ((n * L) % M != 0);
    const int R = (L > 1) ? L : M;
    return special ? 2 * n * R + 2 : 2 * n * R;
}
// delay() of the pinned tree for a coefficient vector of nh taps
static long pinned_delay(int L, int M, int nh) {
    if (M == 1) return (long)((nh + L - 1) / L) * L / 2;   // FIRInterpolator: sublen*L/2
    if (L == 1) return ((nh + M - 1) / M) / 2;              // FIRDecimator: sublen/2
    return ((nh + L - 1) / L) / 2 + 1;                      // FIRRateConverter: sublen/2+1
}
// detail keys for an exception thrown by resample(): f11 = every throwing length is predicted by the F11 mechanism with
// the pinned delays, f11dl = ... with the delay() the library under test reports for this filter
static P f11_keys(P det, int p, int q, int nh, const arr_real* h, int n, const std::vector<int>& lens) {
    const int g = std::gcd(p, q), L = p / g, M = q / g;
    if (L == M) return det.kv("f11", 0).kv("f11dl", 0);
    long adl = -1;
    try {
        if (h) adl = dsplib::FIRResampler(L, M, *h).delay();
        else adl = dsplib::FIRResampler(L, M, dsplib::design_multirate_fir(L, M, n)).delay();   // same length as resample's design
    } catch (const std::exception&) {
    }
    const long pdl = pinned_delay(L, M, nh);
    bool a = true, b = adl >= 0;
    for (int len : lens) {
        a = a && f11_throws(L, M, pdl, len);
        b = b && f11_throws(L, M, adl, len);
    }
    return det.kv("f11", a ? 1 : 0).kv("f11dl", b ? 1 : 0).kv("dl", adl);
}

static void len_block(Ctx& ctx, const char* what_h, int mode, int p, int q, int n, double beta, const arr_real* h) {
    const bool same = (p == q);
    std::map<std::string, std::vector<int>> thrown;   // message -> input lengths
    for (int len : resample_lens(q)) {
        arr_real x(len);
        for (int i = 0; i < len; ++i) x[i] = lcg_val(821, (uint64_t)i) + 0.01 * i;
        arr_real y;
        std::string err;
        const P det = P().kv("len", len).kv("overload", what_h);
        if (!call_resample(mode, x, p, q, n, beta, h, y, err)) {
            // one record per (case, overload, message): the input lengths that throw are listed in the record
            thrown[err].push_back(len);
            continue;
        }
        if (y.size() != expected_len(len, p, q)) {
            ctx.fail("resample", fmt("%d samples (len=%d)", y.size(), len), fmt("p'*ceil(len/q') = %ld", expected_len(len, p, q)), P(det).kv("what", "size"));
            continue;
        }
        bool fin = true;
        for (int i = 0; i < y.size(); ++i) fin = fin && std::isfinite(y[i]);
        if (!fin) ctx.fail("resample", "non-finite output", "finite samples", P(det).kv("what", "nonfinite"));
        if (same && !bitsame(x, y)) ctx.fail("resample", "p == q: output differs from x", "x bit for bit", P(det).kv("what", "identity"));
    }
    for (auto& kv : thrown) {
        const int g = std::gcd(p, q);
        const int nh = h ? h->size() : design_len(p / g, q / g, n);
        ctx.fail("resample", fmt("exception: %s (input lengths %s)", kv.first.c_str(), show(kv.second).c_str()),
                 fmt("p'*ceil(len/q') samples, e.g. %ld for len=%d", expected_len(kv.second[0], p, q), kv.second[0]),
                 f11_keys(P().kv("len", kv.second[0]).kv("overload", what_h).kv("what", "throw"), p, q, nh, h, n, kv.second));
    }
}

struct Align {
    bool ok = false, threw = false;
    int len = 0;
    std::string err;
    double c_shift = 0, t_shift = 0, dc = 0, amp = 0;
};

static Align measure_align(int p, int q, int n, const arr_real* hc = nullptr) {
    Align a;
    const int g0 = std::gcd(p, q);
    const int L = p / g0, M = q / g0;
    // signal length 200 q for the enumerated box; sample-rate style arguments (gcd > 16) use 200 q' to keep it short
    const int g = g0 <= 16 ? g0 : 1;
    const int qe = g * M;   // effective (possibly partly reduced) q: same ratio, same code path inside resample()
    const int len = 200 * qe;
    a.len = len;
    // ---- Gaussian pulse, sigma = 4q input samples (>= 4 M), centre 100 q
    {
        arr_real x(len);
        const double c0 = 100.0 * qe, sg = 4.0 * qe;
        ld sx = 0, mx = 0;
        for (int i = 0; i < len; ++i) {
            x[i] = std::exp(-0.5 * ((i - c0) / sg) * ((i - c0) / sg));
            sx += x[i];
            mx += (ld)i * x[i];
        }
        arr_real y;
        if (!call_resample(hc ? 2 : 0, x, p, q, n, 0, hc, y, a.err)) {
            a.threw = true;
            return a;
        }
        if (y.size() != expected_len(len, p, q)) {
            a.err = fmt("wrong length %d", y.size());
            return a;
        }
        ld sy = 0, my = 0;
        for (int i = 0; i < y.size(); ++i) {
            sy += y[i];
            my += (ld)i * y[i];
        }
        a.dc = (double)(sy / (sx * L / M));
        if (!(fabsl(sy) > 0) || !std::isfinite((double)sy) || !std::isfinite((double)my)) {
            a.err = "pulse lost (sum of the output is zero or not finite)";
            return a;
        }
        a.c_shift = (double)(my / sy - (mx / sx) * L / M);
    }
    // ---- in-band tone, exactly periodic over the analysis window (so images and the negative-frequency term are orthogonal)
    {
        const int cyc = 5 * g * std::min(L, M);   // cycles in the window of 100 q input samples = 100 g L output samples
        const long W = 100L * g * L, i0 = 50L * g * L;
        const ld fin = (ld)cyc / (100.0L * qe), fout = (ld)cyc / (ld)W;
        arr_real x(len);
        for (int i = 0; i < len; ++i) x[i] = (double)cosl(2 * PI_L * fin * i);
        arr_real y;
        if (!call_resample(hc ? 2 : 0, x, p, q, n, 0, hc, y, a.err)) {
            a.threw = true;
            return a;
        }
        if (y.size() < i0 + W) {
            a.err = fmt("wrong length %d", y.size());
            return a;
        }
        ld yr = 0, yi = 0;
        for (long i = 0; i < W; ++i) {
            // phase reduced exactly: (cyc * (i0+i)) mod W
            const long ph = (long)(((long long)cyc * (i0 + i)) % W);
            const ld ang = 2 * PI_L * (ld)ph / (ld)W;
            yr += y[(int)(i0 + i)] * cosl(ang);
            yi -= y[(int)(i0 + i)] * sinl(ang);
        }
        a.amp = (double)(2 * sqrtl(yr * yr + yi * yi) / W);
        a.t_shift = (double)(-atan2l(yi, yr) / (2 * PI_L * fout));
    }
    a.ok = true;
    return a;
}

// ------------------------------------------------------------------------------------------------ one very long frame
// ONE process() call with N >= 70000 / 140000 input samples (index arithmetic beyond 2^16 / 2^17): (i) every output sample is
// compared with the reference chain y[i] = w[i*M+t] evaluated directly in long double (t: the integer phases that reproduce the
// first 256 outputs; one of them must reproduce the whole frame), (ii) the same stream fed in frames of 4096*M must give the
// same samples (to the chain tolerance; bit identity is recorded as a note only).
static void long_case(Ctx& ctx, Kind kind, int L, int M, const std::string& hk, int nh, int N0) {
    const char* site = kind == INTERP ? "FIRInterpolator::process"
                       : kind == DECIM ? "FIRDecimator::process"
                       : kind == RATE  ? "FIRRateConverter::process"
                                       : "FIRResampler::process";
    std::vector<double> h;
    arr_real ha;
    const arr_real* hp = nullptr;
    if (hk == "default") {
        arr_real d = dsplib::design_multirate_fir(L, M);
        h.assign(d.begin(), d.end());
    } else {
        h = sym_dense(nh);
        ha = to_arr(h);
        hp = &ha;
    }
    Chain c;
    c.set(h, L, M);
    const long N = ((long)(N0 + M - 1) / M) * M;
    std::vector<double> x((size_t)N);
    for (long n = 0; n < N; ++n) x[(size_t)n] = lcg_val(841, (uint64_t)n);
    RunOut one = run(kind, L, M, 1, hp, x, 0);
    const P det0 = P().kv("frame", N);
    if (!one.err.empty()) {
        ctx.fail(site, one.err, fmt("%ld samples, no exception", N * L / M), P(det0).kv("what", one.threw ? "throw" : "size"));
        return;
    }
    const long nout = N * L / M;
    const long nhl = (long)h.size();
    auto ref = [&](long u) -> ld {   // w[u] = sum_k g[k] * xup[u-k], xup[n*L] = x[n]
        if (u < 0) return 0;
        long nhi = std::min(N - 1, u / L);
        long nlo = (u - nhl + 1 + L - 1) / L;   // ceil((u-nhl+1)/L) for positive numerators
        if (u - nhl + 1 <= 0) nlo = 0;
        ld sacc = 0;
        for (long n = nlo; n <= nhi; ++n) sacc += (ld)x[(size_t)n] * c.g[(size_t)(u - n * L)];
        return sacc;
    };
    // candidate phases from the head of the frame
    const long R = nhl + L + M, head = std::min<long>(nout, 256);
    ld hmax = 0;
    for (long u = 0; u < head * M + R; ++u) hmax = std::max(hmax, fabsl(ref(u)));
    std::vector<long> T;
    for (long t = -R; t <= R; ++t) {
        bool okk = true;
        for (long i = 0; i < head && okk; ++i) okk = fabsl((ld)one.y[(size_t)i] - ref(i * M + t)) <= 1e-12L * hmax;
        if (okk) T.push_back(t);
    }
    if (T.empty()) {
        ctx.fail(site, "no fixed phase reproduces the first 256 outputs of the long frame", "y[i] = w[i*M+t]", P(det0).kv("what", "head"));
        return;
    }
    // (i) the whole frame
    bool any = false;
    long bad_i = -1;
    double bad_e = 0, tol = 0, worst = 0;
    for (long t : T) {
        std::vector<ld> r((size_t)nout);
        ld ymax = 0;
        for (long i = 0; i < nout; ++i) {
            r[(size_t)i] = ref(i * M + t);
            ymax = std::max(ymax, fabsl(r[(size_t)i]));
        }
        tol = 1e-12 * (double)ymax;
        long bi = -1;
        double be = 0, me = 0;
        for (long i = 0; i < nout; ++i) {
            const double e = (double)fabsl((ld)one.y[(size_t)i] - r[(size_t)i]);
            me = std::max(me, e);
            if (e > tol && bi < 0) bi = i, be = e;
        }
        if (bi < 0) {
            any = true;
            worst = tol > 0 ? me / tol : 0;
            break;
        }
        if (bad_i < 0) bad_i = bi, bad_e = be;
    }
    if (!any) {
        ctx.fail(site,
                 fmt("one frame of %ld samples: y[%ld] differs from the chain by %.3g (input index ~%ld); phase t=%ld reproduces the first 256 outputs",
                     N, bad_i, bad_e, bad_i * M / L, T[0]),
                 fmt("<= %.3g for every output of the frame", tol), P(det0).kv("i", bad_i).kv("in_index", bad_i * M / L).kv("what", "value"));
    } else {
        ctx.worst("long frame max|y-ref| / (1e-12 max|y|)", worst);
    }
    // (ii) the same stream in frames of 4096*M
    RunOut fr = run(kind, L, M, 1, hp, x, 4096 * M);
    if (!fr.err.empty() || (long)fr.y.size() != nout) {
        ctx.fail(site, fr.err.empty() ? fmt("%zu samples", fr.y.size()) : fr.err, fmt("%ld samples, no exception", nout),
                 P(det0).kv("what", "framed"));
        return;
    }
    ld ymax = 0;
    for (double v : fr.y) ymax = std::max(ymax, (ld)std::fabs(v));
    long di = -1, nbit = 0;
    for (long i = 0; i < nout; ++i) {
        if (!biteq(one.y[(size_t)i], fr.y[(size_t)i])) ++nbit;
        if (di < 0 && !(std::fabs(one.y[(size_t)i] - fr.y[(size_t)i]) <= 1e-12 * (double)ymax)) di = i;
    }
    if (di >= 0)
        ctx.fail(site,
                 fmt("one frame of %ld samples gives y[%ld]=%.17g, the same stream in frames of %d samples gives %.17g", N, di, one.y[(size_t)di],
                     4096 * M, fr.y[(size_t)di]),
                 "the same samples for both framings", P(det0).kv("i", di).kv("in_index", di * M / L).kv("what", "framing"));
    ctx.note(nbit == 0 ? "long frame: bit-identical to 4096*M framing" : "long frame: equal to 4096*M framing within tolerance only");
    ctx.nontrivial();
}

// ------------------------------------------------------------------------------------------------ unreduced sample-rate arguments, long inputs
// resample(x, 48000, 44100, ...) must behave exactly like resample(x, 160, 147, ...): products of a length and an unreduced rate
// (len * p ~ 1e10) do not fit an int.  For every overload the output length must be p'*ceil(len/q') and the samples must equal
// those of the call with the reduced ratio (1e-12 relative to max|y|; bit identity is recorded as a note).  The same for a
// FIRResampler(P, Q) object fed one long frame.
static void rates_case(Ctx& ctx, int Pu, int Qu, int len) {
    const int g = std::gcd(Pu, Qu), L = Pu / g, M = Qu / g, mx = std::max(L, M);
    arr_real x(len);
    for (int i = 0; i < len; ++i) x[i] = lcg_val(851, (uint64_t)i) + 1e-5 * i;
    const long want = expected_len(len, Pu, Qu);
    arr_real hd, hs;
    try {
        hd = dsplib::design_multirate_fir(L, M, 8);
    } catch (const std::exception& e) {
        ctx.fail("design_multirate_fir", fmt("exception: %s", e.what()), "a coefficient vector", P().kv("what", "throw"));
        return;
    }
    hs = to_arr(sym_dense(2 * mx + 3));
    struct Ov {
        const char* name;
        int mode;
        int n;
        double beta;
        const arr_real* h;
    };
    const Ov ovs[] = {{"resample(x,p,q)", 3, 0, 0, nullptr}, {"resample(x,p,q,8,7.0)", 1, 8, 7.0, nullptr}, {"resample(x,p,q,h) designed h", 2, 0, 0, &hd},
                      {"resample(x,p,q,h) dense h", 2, 0, 0, &hs}};
    for (const auto& ov : ovs) {
        // nxp = ceil(len/q')*q' * p' : the product the length computation forms (>= 2^31 does not fit an int)
        const long long nxp = (long long)(((long long)len + M - 1) / M) * M * L;
        const P det = P().kv("overload", ov.name).kv("nxp", nxp).kv("nxp_unreduced", (long long)(((long long)len + Qu - 1) / Qu) * Qu * Pu);
        arr_real yu, yr;
        std::string eu, er;
        bool oku, okr;
        if (ov.mode == 3) {
            try {
                yu = dsplib::resample(x, Pu, Qu);
                oku = true;
            } catch (const std::exception& e) {
                eu = e.what();
                oku = false;
            }
            try {
                yr = dsplib::resample(x, L, M);
                okr = true;
            } catch (const std::exception& e) {
                er = e.what();
                okr = false;
            }
        } else {
            oku = call_resample(ov.mode, x, Pu, Qu, ov.n, ov.beta, ov.h, yu, eu);
            okr = call_resample(ov.mode, x, L, M, ov.n, ov.beta, ov.h, yr, er);
        }
        if (!oku || !okr) {
            ctx.fail("resample", fmt("%s: exception: %s", oku ? "reduced ratio" : "unreduced ratio", (oku ? er : eu).c_str()), fmt("%ld samples", want),
                     P(det).kv("what", "throw").kv("unreduced", oku ? 0 : 1));
            continue;
        }
        if (yu.size() != want || yr.size() != want) {
            ctx.fail("resample", fmt("%s with len=%d: %d samples for %d/%d, %d samples for %d/%d", ov.name, len, yu.size(), Pu, Qu, yr.size(), L, M),
                     fmt("p'*ceil(len/q') = %ld for both", want), P(det).kv("what", "size").kv("got", yu.size()).kv("got_reduced", yr.size()));
            continue;
        }
        double ymax = 0;
        bool fin = true;
        for (int i = 0; i < yr.size(); ++i) ymax = std::max(ymax, std::fabs(yr[i])), fin = fin && std::isfinite(yu[i]) && std::isfinite(yr[i]);
        long bad = -1;
        for (int i = 0; i < yr.size() && bad < 0; ++i)
            if (!(std::fabs(yu[i] - yr[i]) <= 1e-12 * ymax)) bad = i;
        if (!fin || bad >= 0)
            ctx.fail("resample", fin ? fmt("%s: y[%ld] = %.17g for %d/%d but %.17g for %d/%d", ov.name, bad, yu[(int)bad], Pu, Qu, yr[(int)bad], L, M) : "non-finite output",
                     "the same samples for the unreduced and the reduced ratio", P(det).kv("what", "value").kv("i", bad));
        ctx.note(bitsame(yu, yr) ? "rates: unreduced call bit-identical to reduced call" : "rates: unreduced call equal within tolerance only");
    }
    // a FIRResampler(P, Q) object fed one long frame (multiple of q')
    {
        const int flen = (len / M) * M;
        if (flen > 0) {
            arr_real in(flen);
            for (int i = 0; i < flen; ++i) in[i] = x[i];
            try {
                arr_real yu = dsplib::FIRResampler(Pu, Qu).process(in), yr = dsplib::FIRResampler(L, M).process(in);
                const long w = (long)flen * L / M;
                if (yu.size() != w || yr.size() != w)
                    ctx.fail("FIRResampler::process", fmt("frame of %d samples: %d samples for FIRResampler(%d,%d), %d for (%d,%d)", flen, yu.size(), Pu, Qu, yr.size(), L, M),
                             fmt("%ld", w), P().kv("overload", "FIRResampler").kv("what", "size"));
                else if (!bitsame(yu, yr)) {
                    double ymax = 0;
                    for (int i = 0; i < yr.size(); ++i) ymax = std::max(ymax, std::fabs(yr[i]));
                    long bad = -1;
                    for (int i = 0; i < yr.size() && bad < 0; ++i)
                        if (!(std::fabs(yu[i] - yr[i]) <= 1e-12 * ymax)) bad = i;
                    if (bad >= 0)
                        ctx.fail("FIRResampler::process", fmt("y[%ld] differs between FIRResampler(%d,%d) and (%d,%d)", bad, Pu, Qu, L, M), "the same samples",
                                 P().kv("overload", "FIRResampler").kv("what", "value").kv("i", bad));
                }
            } catch (const std::exception& e) {
                ctx.fail("FIRResampler::process", fmt("exception: %s", e.what()), "no exception", P().kv("overload", "FIRResampler").kv("what", "throw"));
            }
        }
    }
    ctx.nontrivial();
}

// ------------------------------------------------------------------------------------------------ band limitation of the default designs
// "approximating the band-limited signal": with the default designs a tone well inside the new band (0.4 of the smaller Nyquist
// rate) must come through with unit gain and nothing else, a tone half-way between the new and the old Nyquist rate must be
// suppressed to the stop-band leakage of the design.  Tones are exactly periodic in the analysis window (100 M input samples =
// 100 L output samples, taken from the middle of a 200 M sample signal), so the projections are leakage free.
struct Band {
    bool ok = false;
    std::string err;
    double gain = 0, resid = 0, stop = 0;   // in-band amplitude, in-band residual rms, stop-band output rms (input amplitude 1)
};
// design: 0 resample(x,p,q)  1 resample(x,p,q,12,9.0)  2 FIRResampler(L,M)  3 FIRRateConverter(L,M) / FIRDecimator(M) default
static Band measure_band(int L, int M, int design) {
    Band b;
    const int len = 200 * M;
    const long W = 100L * L, i0 = 50L * L;
    for (int tone = 0; tone < 2; ++tone) {
        const long cyc = tone == 0 ? 20L * L : 25L * (M + L);   // cycles per 100 M input samples
        arr_real x(len);
        for (int i = 0; i < len; ++i) {
            const long ph = (long)(((long long)cyc * i) % (100LL * M));
            x[i] = (double)cosl(2 * PI_L * (ld)ph / (ld)(100L * M));
        }
        arr_real y;
        try {
            if (design == 0) y = dsplib::resample(x, L, M);
            else if (design == 1) y = dsplib::resample(x, L, M, 12, 9.0);
            else if (design == 2) y = dsplib::FIRResampler(L, M).process(x);
            else if (L == 1) y = dsplib::FIRDecimator(M).process(x);
            else y = dsplib::FIRRateConverter(L, M).process(x);
        } catch (const std::exception& e) {
            b.err = std::string("exception: ") + e.what();
            return b;
        }
        if (y.size() != 200L * L) {
            b.err = fmt("output length %d (expected %ld)", y.size(), 200L * L);
            return b;
        }
        ld e2 = 0, yr = 0, yi = 0;
        bool fin = true;
        for (long i = 0; i < W; ++i) {
            const double v = y[(int)(i0 + i)];
            fin = fin && std::isfinite(v);
            e2 += (ld)v * v;
            if (tone == 0) {
                const long ph = (long)(((long long)cyc * (i0 + i)) % W);
                const ld ang = 2 * PI_L * (ld)ph / (ld)W;
                yr += v * cosl(ang);
                yi -= v * sinl(ang);
            }
        }
        if (!fin) {
            b.err = "non-finite output";
            return b;
        }
        if (tone == 0) {
            const ld a2 = 4 * (yr * yr + yi * yi) / ((ld)W * W);   // squared amplitude at the expected frequency
            b.gain = (double)sqrtl(a2);
            b.resid = (double)sqrtl(std::max<ld>(0, e2 / W - a2 / 2));
        } else {
            b.stop = (double)sqrtl(e2 / W);
        }
    }
    b.ok = true;
    return b;
}

// ------------------------------------------------------------------------------------------------ main
int main(int argc, char** argv) {
    Ctx ctx;
    ctx.parse(argc, argv, "C08");
    const bool T = ctx.thorough();
    const int B = T ? 24 : 8;     // class-level box: reduced L/M with L, M <= B
    const int BR = T ? 32 : 8;    // resample() grid: p, q <= BR
    g_deep = T;

    struct Conf {
        Kind k;
        int L, M, mul;
        bool audio;
    };
    std::vector<Conf> confs;
    for (int L = 1; L <= B; ++L) confs.push_back({INTERP, L, 1, 1, false});
    for (int M = 1; M <= B; ++M) confs.push_back({DECIM, 1, M, 1, false});
    for (int L = 1; L <= B; ++L)
        for (int M = 1; M <= B; ++M)
            if (std::gcd(L, M) == 1) {
                confs.push_back({RATE, L, M, 1, false});
                confs.push_back({RESAMPLER, L, M, 1, false});
            }
    const int audio[][2] = {{160, 441}, {441, 160}, {147, 160}, {160, 147}, {320, 147}};
    for (auto& a : audio) {
        confs.push_back({RATE, a[0], a[1], 1, true});
        confs.push_back({RESAMPLER, a[0], a[1], 300, true});   // FIRResampler(48000, 132300) style unreduced arguments
    }
    if (T) {
        const int audio2[][2] = {{80, 147}, {147, 80}, {147, 320}, {640, 147}};
        for (auto& a : audio2) {
            confs.push_back({RATE, a[0], a[1], 1, true});
            confs.push_back({RESAMPLER, a[0], a[1], 100, true});
        }
    }
    for (int L : {147, 160, 320, 441}) confs.push_back({INTERP, L, 1, 1, true});
    for (int M : {147, 160, 441}) confs.push_back({DECIM, 1, M, 1, true});
    // a few unreduced FIRResampler arguments in the small box
    const int unred[][3] = {{3, 2, 2}, {2, 3, 5}, {1, 4, 3}, {5, 1, 2}, {1, 1, 7}};
    for (auto& a : unred) confs.push_back({RESAMPLER, a[0], a[1], a[2], false});

    // ---- class level: textbook chain
    for (auto& cf : confs) {
        if (!ctx.wants("chain")) break;
        const int mx = std::max(cf.L, cf.M);
        auto P0 = [&]() { return P().kv("kind", KNAME[cf.k]).kv("L", cf.L).kv("M", cf.M).kv("mul", cf.mul); };
        if (ctx.take("chain", P0().kv("h", "default").kv("nh", 0).kv("j", 0)))
            chain_case(ctx, cf.k, cf.L, cf.M, cf.mul, "default", 0, 0, cf.audio && !T);
        if (cf.k == RESAMPLER && cf.L == 1 && cf.M == 1) continue;   // bypass ignores h (identity; statement: p = q returns x)
        std::vector<int> lens;
        std::set<int> jsel;   // empty = every j
        bool light = false;
        if (!cf.audio) {
            for (int n = 2; n <= 2 * mx + 3; ++n) lens.push_back(n);
            std::vector<int> longs = {4, 12, 40};
            for (int f : longs)
                for (int d = 0; d <= 1; ++d)
                    if (f * mx + d > 2 * mx + 3) lens.push_back(f * mx + d);
        } else {
            light = true;
            if (T) lens = {2, 3, mx - 1, mx, mx + 1, 2 * mx + 3, 4 * mx, 4 * mx + 1, 12 * mx + 1, 40 * mx, 40 * mx + 1};
            else lens = {2, mx + 1, 4 * mx + 1};
        }
        for (int n : lens) {
            std::vector<int> js;
            if (!cf.audio) {
                if (mx > 16 && n > 4 * mx + 1) {
                    // box 17..24: the very long h only with 5 impulse pairs (+ dense)
                    std::set<int> sj = {0, 1, 7, (n - 1) / 2 - 1, (n - 1) / 2};
                    js.assign(sj.begin(), sj.end());
                } else {
                    for (int j = 0; j <= (n - 1) / 2; ++j) js.push_back(j);
                }
            } else {
                std::set<int> s = {0, 1, 7 % ((n + 1) / 2), (n - 1) / 2 - 1, (n - 1) / 2};
                for (int j : s)
                    if (j >= 0 && j <= (n - 1) / 2) js.push_back(j);
            }
            for (int j : js) {
                if (!ctx.take("chain", P0().kv("h", "pair").kv("nh", n).kv("j", j))) continue;
                chain_case(ctx, cf.k, cf.L, cf.M, cf.mul, "pair", n, j, light && (!T || n > 4 * mx + 1));
            }
            if (!ctx.take("chain", P0().kv("h", "dense").kv("nh", n).kv("j", 0))) continue;
            chain_case(ctx, cf.k, cf.L, cf.M, cf.mul, "dense", n, 0, light && (!T || n > 4 * mx + 1));
        }
    }
    // ---- rejection of non-multiple frames, getters
    for (auto& cf : confs) {
        if (ctx.take("chain.reject", P().kv("kind", KNAME[cf.k]).kv("L", cf.L).kv("M", cf.M))) reject_case(ctx, cf.k, cf.L, cf.M);
        if (ctx.take("getters", P().kv("kind", KNAME[cf.k]).kv("L", cf.L).kv("M", cf.M).kv("mul", cf.mul)))
            getters_case(ctx, cf.k, cf.L, cf.M, cf.mul);
    }

    // ---- one very long frame (input indices beyond 2^16 and 2^17)
    {
        struct LC {
            Kind k;
            int L, M;
            bool quick;
        };
        const LC lcs[] = {{RATE, 3, 2, true},      {RATE, 2, 3, true},       {RATE, 5, 7, false},     {RATE, 3, 4, false},
                          {INTERP, 3, 1, true},    {DECIM, 1, 3, true},      {RESAMPLER, 3, 2, true}, {RESAMPLER, 2, 3, false},
                          {RESAMPLER, 3, 1, false}, {RESAMPLER, 1, 3, false}, {RATE, 7, 5, false},     {RATE, 16, 15, false}};
        for (auto& lc : lcs)
            for (int N0 : {70000, 140000, 270000})
                for (int hv = 0; hv < 2; ++hv) {
                    if (!T && (!lc.quick || N0 != 70000 || hv != 0)) continue;
                    if (N0 == 270000 && !lc.quick) continue;   // beyond 2^18: the five basic forms only
                    const int mx = std::max(lc.L, lc.M), nh = 2 * mx + 3;
                    if (!ctx.take("chain.long", P().kv("kind", KNAME[lc.k]).kv("L", lc.L).kv("M", lc.M).kv("h", hv ? "dense" : "default").kv("nh", hv ? nh : 0).kv("frame", N0)))
                        continue;
                    long_case(ctx, lc.k, lc.L, lc.M, hv ? "dense" : "default", nh, N0);
                }
    }

    // ---- scale invariance of multi-frame histories (every configuration of the box; audio ratios with the default h)
    for (auto& cf : confs) {
        const int mx = std::max(cf.L, cf.M);
        auto P0 = [&]() { return P().kv("kind", KNAME[cf.k]).kv("L", cf.L).kv("M", cf.M).kv("mul", cf.mul); };
        if (ctx.take("chain.scale", P0().kv("h", "default").kv("nh", 0))) chain_scale_case(ctx, cf.k, cf.L, cf.M, cf.mul, "default", 0);
        if (cf.audio || (cf.k == RESAMPLER && cf.L == 1 && cf.M == 1)) continue;
        for (int n : {mx + 1, 4 * mx + 1})
            if (ctx.take("chain.scale", P0().kv("h", "dense").kv("nh", n))) chain_scale_case(ctx, cf.k, cf.L, cf.M, cf.mul, "dense", n);
    }

    // ---- a rejected frame must not change the state (decimating classes and modes; M = 1 has no rejectable length)
    for (auto& cf : confs) {
        if (cf.k == INTERP || cf.M == 1) continue;
        const int mx = std::max(cf.L, cf.M);
        auto P0 = [&]() { return P().kv("kind", KNAME[cf.k]).kv("L", cf.L).kv("M", cf.M).kv("mul", cf.mul); };
        if (ctx.take("chain.reject.state", P0().kv("h", "default").kv("nh", 0))) reject_state_case(ctx, cf.k, cf.L, cf.M, cf.mul, "default", 0);
        std::vector<int> hl = cf.audio ? std::vector<int>{mx + 1} : std::vector<int>{2, mx + 1, 2 * mx + 3, 4 * mx + 1};
        for (int n : hl)
            if (ctx.take("chain.reject.state", P0().kv("h", "dense").kv("nh", n))) reject_state_case(ctx, cf.k, cf.L, cf.M, cf.mul, "dense", n);
    }

    // ---- resample(): length / no exception / identity for every (p, q, n)
    for (int p = 1; p <= BR; ++p)
        for (int q = 1; q <= BR; ++q)
            for (int n = 1; n <= 12; ++n) {
                if (!ctx.take("resample.len", P().kv("p", p).kv("q", q).kv("n", n).kv("path", path_of(p, q)))) continue;
                len_block(ctx, "n", 0, p, q, n, 0, nullptr);
                if (n == 1 || n == 10 || T) {
                    len_block(ctx, "n,beta=0", 1, p, q, n, 0.0, nullptr);
                    len_block(ctx, "n,beta=9", 1, p, q, n, 9.0, nullptr);
                }
                if (T) {
                    len_block(ctx, "n,beta=2.5", 1, p, q, n, 2.5, nullptr);
                    len_block(ctx, "n,beta=14", 1, p, q, n, 14.0, nullptr);
                }
                ctx.note(fmt("resample path %s", path_of(p, q)));
                if (p != q) ctx.nontrivial();
            }
    // ---- resample(x, p, q, h) with custom symmetric h
    for (int p = 1; p <= BR; ++p)
        for (int q = 1; q <= BR; ++q) {
            const int g = std::gcd(p, q), mx = std::max(p / g, q / g);
            std::vector<int> hl;
            for (int n = 2; n <= 2 * mx + 3; ++n) hl.push_back(n);
            for (int n : {4 * mx, 4 * mx + 1, 12 * mx + 1})
                if (n > 2 * mx + 3) hl.push_back(n);
            for (int n : hl) {
                if (!ctx.take("resample.h", P().kv("p", p).kv("q", q).kv("nh", n).kv("path", path_of(p, q)))) continue;
                arr_real h = to_arr(sym_dense(n));
                len_block(ctx, "h", 2, p, q, 0, 0, &h);
                if (p != q) ctx.nontrivial();
            }
        }
    // ---- unreduced sample-rate arguments with long inputs (both tiers; thorough adds more pairs and lengths)
    {
        std::vector<std::array<int, 2>> rates = {{48000, 44100}, {44100, 48000}, {96000, 44100}, {16000, 48000}, {48000, 16000}, {22050, 8000}};
        std::vector<int> lens = {1000, 44100, 44739, 44740, 88200, 100000};
        if (T) {
            for (auto a : {std::array<int, 2>{192000, 44100}, std::array<int, 2>{44100, 192000}, std::array<int, 2>{32000, 48000}, std::array<int, 2>{11025, 48000},
                           std::array<int, 2>{2000000, 3000000}, std::array<int, 2>{65536, 65535}})
                rates.push_back(a);
            rates.push_back({441, 160});   // reduced ratio, only with the very long input below (110 s of 44.1 kHz audio)
            for (int l : {1, 22369, 22370, 32768, 65536, 131072, 200000}) lens.push_back(l);
        }
        for (auto& r : rates)
            for (int len : lens) {
                // 65536/65535 is already reduced (L = 65536): polyphase tables of 2^16 branches, short inputs only
                if (r[0] == 65536 && len > 1000) continue;
                if (r[0] == 441 && len != 1) continue;
                const int ln = (r[0] == 441) ? 4870000 : len;   // ceil(len/160)*160*441 >= 2^31
                if (!ctx.take("resample.rates", P().kv("p", r[0]).kv("q", r[1]).kv("len", ln))) continue;
                rates_case(ctx, r[0], r[1], ln);
            }
    }

    // ---- band limitation of the default designs (M > L: part of the old band must be removed)
    {
        std::vector<std::array<int, 2>> ratios = {{2, 3}, {2, 5}, {3, 7}, {3, 8}, {5, 16}, {160, 441}, {147, 320}, {1, 2}, {1, 3}, {1, 8}};
        if (T) {
            // every reduced L/M in [0.3, 2/3] with M <= 16 and every 1/M (the stop tone is at least as far from the cut-off as for
            // 2/3).  Below 0.3 with L > 1 the default design (2*n*L taps = 2n input samples whatever M is) is too short for the
            // band: the in-band gain droops by 5-7 % (2/11, 2/13, 2/15, 3/16); that is a design limitation outside the bound taken
            // from the requested ratios (smallest 5/16), not an indexing property, and is therefore not enumerated.
            ratios.clear();
            for (int M = 2; M <= 16; ++M)
                for (int L = 1; 3 * L <= 2 * M; ++L)
                    if (std::gcd(L, M) == 1 && (L == 1 || 10 * L >= 3 * M)) ratios.push_back({L, M});
            ratios.push_back({160, 441});
            ratios.push_back({147, 320});
            ratios.push_back({80, 147});
        }
        const char* dn[] = {"resample(x,p,q)", "resample(x,p,q,12,9.0)", "FIRResampler(L,M)", "FIRRateConverter(L,M)/FIRDecimator(M)"};
        // stop-band bound per design: 10 x the largest leakage measured on the unchanged tree (see propdef)
        const double stop_bound[] = {8.5e-3, 9.2e-2, 9.1e-2, 9.1e-2};
        for (auto& r : ratios)
            for (int d = 0; d < 4; ++d) {
                if (!ctx.take("resample.band", P().kv("L", r[0]).kv("M", r[1]).kv("design", d))) continue;
                Band m = measure_band(r[0], r[1], d);
                if (!m.ok) {
                    ctx.fail(dn[d], m.err, "a resampled tone", P().kv("what", "throw"));
                    continue;
                }
                ctx.nontrivial();
                ctx.worst(fmt("band: stop-band output rms, design %d", d), m.stop);
                ctx.worst(fmt("band: in-band residual rms, design %d", d), m.resid);
                ctx.worst("band: |in-band gain - 1|", std::fabs(m.gain - 1));
                if (std::fabs(m.gain - 1) > 0.05 || m.resid > stop_bound[d])
                    ctx.fail(dn[d], fmt("tone at 0.4 of the new Nyquist rate: amplitude %.5f, other content rms %.3g", m.gain, m.resid),
                             fmt("amplitude within 1 +- 0.05, other content rms <= %.3g", stop_bound[d]), P().kv("what", "inband").kv("gain", m.gain).kv("resid", m.resid));
                if (m.stop > stop_bound[d])
                    ctx.fail(dn[d], fmt("tone half-way between the new and the old Nyquist rate (input amplitude 1) gives output rms %.3g", m.stop),
                             fmt("<= %.3g (stop-band leakage of the default design x 10)", stop_bound[d]), P().kv("what", "stopband").kv("rms", m.stop));
            }
    }

    // ---- alignment of the overload with a caller-supplied symmetric low-pass h (the same delay compensation, other tap counts:
    //      odd and even numbers of taps per polyphase branch, lengths that are and are not multiples of max(L,M))
    {
        for (int p = 1; p <= BR; ++p)
            for (int q = 1; q <= BR; ++q) {
                if (p == q) continue;
                const int g = std::gcd(p, q), L = p / g, M = q / g, mx = std::max(L, M);
                for (int t : {3, 4, 5, 6, 7, 9, 12})
                    for (int extra : {0, 1}) {
                        const int nh = t * mx + extra;
                        if (!ctx.take("resample.align.h", P().kv("p", p).kv("q", q).kv("nh", nh).kv("path", path_of(p, q)))) continue;
                        arr_real h(nh);   // sin^2 (Hann-shaped, strictly positive inside) low-pass, symmetric by construction
                        for (int i = 0; i < nh; ++i) {
                            const double s1 = std::sin(3.14159265358979323846 * (i + 1) / (nh + 1)), s2 = std::sin(3.14159265358979323846 * (nh - i) / (nh + 1));
                            h[i] = 0.5 * (s1 * s1 + s2 * s2);
                        }
                        Align m = measure_align(p, q, 0, &h);
                        if (!m.ok) {
                            ctx.fail("resample", fmt("alignment not measurable with custom h: %s (len=%d)", m.err.c_str(), m.len), "a resampled pulse / tone", P().kv("what", m.threw ? "throw" : "length").kv("overload", "h"));
                            continue;
                        }
                        ctx.nontrivial();
                        const std::string pth = path_of(p, q);
                        if (!extra) {
                            ctx.worst("|centroid shift| custom h " + pth, std::fabs(m.c_shift));
                            ctx.worst("|tone shift| custom h " + pth, std::fabs(m.t_shift));
                        }
                        const double lim = 1.0 + 1e-6;
                        if (extra) {
                            // h is padded with trailing zeros to a multiple of max(L,M) and the compensation uses the padded length: the
                            // output then LEADS by up to (max(L,M)-1)/2 output samples.  The alignment clause of the property names
                            // resample(x, p, q) with the library's own design; for padded custom filters the shift is recorded, not judged
                            ctx.worst("|centroid shift| custom h of t*max(L,M)+1 taps (zero-padded by the library; recorded, not judged) " + pth, std::fabs(m.c_shift));
                            continue;
                        }
                        if (!(std::fabs(m.c_shift) <= lim) || !(std::fabs(m.t_shift) <= lim))
                            ctx.fail("resample", fmt("custom symmetric h of %d taps: output lags the times i*q/p by %+.3f (pulse centroid) / %+.3f (tone phase) output samples", nh, m.c_shift, m.t_shift),
                                     "|shift| <= 1 output sample", P().kv("what", "shift").kv("overload", "h").kv("cshift", m.c_shift).kv("tshift", m.t_shift));
                    }
            }
    }

    // ---- alignment
    {
        std::vector<std::array<int, 2>> pq;
        for (int p = 1; p <= BR; ++p)
            for (int q = 1; q <= BR; ++q) pq.push_back({p, q});
        for (auto& a : audio) pq.push_back({a[0], a[1]});
        pq.push_back({48000, 44100});
        pq.push_back({16000, 44100});
        for (auto& a : pq) {
            const int p = a[0], q = a[1];
            if (p == q) continue;
            for (int n = 1; n <= 12; ++n) {
                if (!ctx.take("resample.align", P().kv("p", p).kv("q", q).kv("n", n).kv("path", path_of(p, q)))) continue;
                Align m = measure_align(p, q, n);
                if (!m.ok) {
                    const int g = std::gcd(p, q);
                    ctx.fail("resample", fmt("alignment not measurable: %s (len=%d)", m.err.c_str(), m.len), "a resampled pulse / tone",
                             m.threw ? f11_keys(P().kv("what", "throw"), p, q, design_len(p / g, q / g, n), nullptr, n, {m.len})
                                     : P().kv("what", "length"));
                    continue;
                }
                ctx.nontrivial();
                const std::string pth = path_of(p, q);
                ctx.worst("|centroid shift| " + pth, std::fabs(m.c_shift));
                ctx.worst("|tone shift| " + pth, std::fabs(m.t_shift));
                ctx.worst("|dc gain - 1|", std::fabs(m.dc - 1));
                ctx.worst("|tone amplitude - 1|", std::fabs(m.amp - 1));
                if (!(m.dc > 0.5 && m.dc < 2.0) || !(m.amp > 0.25 && m.amp < 2.0)) {
                    ctx.fail("resample", fmt("pulse area ratio %.4g, tone amplitude %.4g", m.dc, m.amp),
                             "within [0.5,2] resp. [0.25,2] of the band-limited signal", P().kv("what", "gain"));
                    continue;
                }
                const double lim = 1.0 + 1e-6;
                if (!(std::fabs(m.c_shift) <= lim) || !(std::fabs(m.t_shift) <= lim)) {
                    // signature of the documented defect F10 (FIRRateConverter::delay() == sublen/2 + 1 == n + 1): the shift it
                    // produces for the library's own design, so that the known-finding entry matches this failure class only
                    const int g = std::gcd(p, q), L = p / g, M = q / g;
                    const bool special = (M > L) && (L > 1) && ((n * L) % M != 0);   // design keeps 2nL+2 taps, centre nL + 1/2
                    const double f10 = ((n * L + (special ? 0.5 : 0.0)) - (M - 1)) / M - (n + 1);
                    ctx.fail("resample", fmt("output lags the times i*q/p by %+.3f (pulse centroid) / %+.3f (tone phase) output samples", m.c_shift, m.t_shift),
                             "|shift| <= 1 output sample", P().kv("what", "shift").kv("cshift", m.c_shift).kv("tshift", m.t_shift).kv("f10shift", f10));
                }
            }
        }
    }
    return ctx.finish();
}
